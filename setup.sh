#!/bin/bash
# MANIFEST.setup_cmd: offline warm build of the harness against /repo + toolchain self check.
set -e
cd "$(dirname "$0")/harness"
export GOFLAGS=-mod=mod GOPROXY=off GOSUMDB=off GOTOOLCHAIN=local CGO_ENABLED=1
TMP=$(mktemp -d)
trap 'rm -rf "$TMP"' EXIT
go version
go test -c -vet=off -o "$TMP/props.test" ./props
go test -c -vet=off -race -o "$TMP/props_race.test" ./props
for d in cmd/*/; do [ -f "$d/main.go" ] && go build -o "$TMP/$(basename $d)" "./$d"; done
echo "setup ok"
