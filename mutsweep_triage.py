import json,subprocess,collections
rs=json.load(open('/verif/mutsweep-results.json'))
def cat(r):
    f=r['file'].split('/')[-1]; l=r['line']; o=r.get('original','')
    if f=='serializer_spdx23.go' and l==254: return 'DRIVER-BUG','C01 reported it, but the driver crashed on a fail file with non-UTF-8 bytes (exit 1 without VIOLATION line) - driver fixed, re-run: caught'
    if f=='serializer_spdx23.go' and l==323: return 'BLIND-SPOT','references after one without URL were dropped; the C01 generator never produced a reference without URL - generator extended, re-run: caught'
    if f=='person.go': return 'MAPPING','run against C13/C12/C14 only; C01 (supplier/originator e-mail) catches it - re-run: caught'
    if r['op']=='brk' and ('continue' in o): return 'OUT-OF-SCOPE','skip of a nil / unknown / invalid element: `break` differs only on documents or inputs with such elements, which no round-trip or well-formedness clause covers'
    if f=='serializer_cdx.go' and l in(70,71): return 'EQUIVALENT','initial value overwritten later'
    if f=='serializer_cdx.go' and l in(124,133,136,405,412,422,424): return 'OUT-OF-SCOPE','document authors/tools and component supplier are not in the C02 attribute list'
    if f=='serializer_cdx.go' and l==150: return 'KNOWN-FINDING','this line *is* KF-03 (root name replaced by the document name); deleting it repairs the finding'
    if f=='serializer_cdx.go' and l in(160,204): return 'OUT-OF-SCOPE','clearing auto-generated refs on output is a feature no property demands'
    if f=='serializer_cdx.go' and l==282: return 'EQUIVALENT','duplicate dependsOn entries are harmless (set semantics)'
    if (f=='serializer_cdx.go' and l==451) or (f=='serializer_spdx23.go' and l==37): return 'OUT-OF-SCOPE','pretty printing / indentation of the real drivers is not part of any property (C18 observes options at fake drivers)'
    if f=='serializer_spdx23.go' and l in(90,91): return 'OUT-OF-SCOPE','tool name rendering in creationInfo'
    if f=='serializer_spdx23.go' and l in(178,297): return 'EQUIVALENT','NONE/NOASSERTION conventions ("up to the NOASSERTION/NONE conventions")'
    if f=='serializer_spdx23.go' and l==207: return 'EQUIVALENT','field not serialized'
    if f=='serializer_spdx23.go' and l in(276,278): return 'EQUIVALENT','two assignments of the same value (case OTHER and default)'
    if f=='unserializer_cdx.go' and l==68: return 'OUT-OF-SCOPE','lifecycle *name* of a typed lifecycle (C02 preserves the type)'
    if f=='unserializer_cdx.go' and l in(254,287): return 'OUT-OF-SCOPE','licence expressions in CycloneDX input: the serializer never writes them, no parse-side clause covers them (KF-01 region)'
    if f=='unserializer_spdx23.go' and l in(57,66,69,71,75,76): return 'OUT-OF-SCOPE','document name / tools / authors are not in the C01 attribute list'
    if f=='unserializer_spdx23.go' and l==118: return 'EQUIVALENT','recover path no longer reachable after the normalizeJSON fix'
    if f=='unserializer_spdx23.go' and l in(136,142,218): return 'EQUIVALENT','same JSON value / same content'
    if f=='unserializer_spdx23.go' and l in(354,370,379): return 'EQUIVALENT','flag ignored when an error is returned'
    if f=='nodelist.go' and l in(170,176,182,183): return 'OUT-OF-SCOPE','AddRootNode is not among the operations C08 lists'
    if f=='nodelist.go' and l==546: return 'EQUIVALENT','early exit of a search loop'
    if f=='nodelist.go' and l in(729,733,752): return 'OUT-OF-SCOPE','edges/roots of GetNodesByPurlType results (C16 fixes the node set, C08 well-formedness)'
    if f=='nodelist.go' and l==910: return 'EQUIVALENT','re-initialisation of a slice that is reassigned'
    if f=='node.go' and l==274: return 'EQUIVALENT','pairs are sorted again at the end of flatString'
    if f=='node.go' and l in(375,377): return 'EQUIVALENT','inside GetMatchingNode HashesMatch is only reached for nodes found through a matching hash'
    if f=='node.go' and l in(398,399): return 'OUT-OF-SCOPE','AddHash is not covered by a property'
    if f=='edge.go' and l in(29,30,33,266): return 'EQUIVALENT','PointsTo / destination de-duplication is repeated by cleanEdges'
    if f=='edge.go' and l==138: return 'OUT-OF-SCOPE','lower-case relationship names in SPDX input'
    if f=='externalreference.go': return 'EQUIVALENT','marker inside the flat string'
    if f=='sniffer.go' and l==56: return 'EQUIVALENT','only a warning message'
    if f=='sniffer.go': return 'OUT-OF-SCOPE','tag-value heuristics: C06 asserts only the necessary condition for tag-value results'
    if f=='filesystem.go': return 'EQUIVALENT','descriptor leak on an error path / message text'
    if f=='reader.go' and l in(29,30,31): return 'OUT-OF-SCOPE','which down-level CycloneDX versions are registered by default (properties quantify over registered formats)'
    if f=='reader.go' and l==72: return 'EQUIVALENT','interface method not used through the interface'
    if f=='writer.go' and l in(64,65,66,67): return 'OUT-OF-SCOPE','which down-level CycloneDX versions are registered by default (1.3 is caught by C06, which is not in the check list of this file)'
    if f=='writer.go' and l==49: return 'EQUIVALENT','every other entry point initialises too'
    if (f=='options.go' and l in(59,24)) or (f=='writer.go' and l in(119,120)): return 'EQUIVALENT','Serialize/UnserializeOptions are empty structs: nothing observable distinguishes two values'
    return 'UNTRIAGED',''
head=subprocess.run(['git','-C','/repo','rev-parse','--short','HEAD'],capture_output=True,text=True).stdout.strip()
c=collections.Counter(r['status'] for r in rs)
out=['# Triage of the survivors of `./mutsweep.py` (statement-level mutation sweep)\n\n',
 'Run on /repo HEAD `%s`: %d mutants over 20 source files. %d did not compile, %d were rejected by the unedited upstream suite, %d were caught by the first quick check that reported a violation, %d survived every mapped quick check at seed 1.\n'%(head,len(rs),c['nocompile'],c['killed_by_suite'],c['caught'],c['SURVIVED'])]
cats=collections.defaultdict(list)
for r in rs:
    if r['status']=='SURVIVED':
        k,why=cat(r); cats[k].append((r,why))
order=['DRIVER-BUG','BLIND-SPOT','MAPPING','KNOWN-FINDING','EQUIVALENT','OUT-OF-SCOPE','UNTRIAGED']
out.append('\nSurvivors by verdict: '+', '.join('%s %d'%(k,len(cats[k])) for k in order if cats[k])+'.\n')
for k in order:
    if not cats[k]: continue
    out.append('\n## %s\n\n'%k)
    for r,why in cats[k]:
        out.append('* `%s:%d` %s `%s`%s - %s\n'%(r['file'],r['line'],r['op'],r.get('original','')[:90],(' -> `%s`'%r['mutated'][:60]) if r['op'] not in('del','brk') else '',why))
open('/verif/mutsweep-triage.md','w').write(''.join(out))
print({k:len(v) for k,v in cats.items()})
