// storechild runs one batch of store / retrieve operations of the protobom filesystem backend in its own
// process, through the public writer / reader API, so that a process exit (logrus.Fatal, panic, kill) is
// observable by the parent. Requests are read from stdin as JSON, results are written to stdout as JSON.
package main

import (
	"encoding/base64"
	"encoding/json"
	"fmt"
	"os"
	"runtime"

	"github.com/protobom/protobom/pkg/reader"
	"github.com/protobom/protobom/pkg/sbom"
	"github.com/protobom/protobom/pkg/storage"
	"github.com/protobom/protobom/pkg/writer"
	"google.golang.org/protobuf/proto"
)

type request struct {
	Op        string    `json:"op"`              // store | retrieve | session
	Steps     []request `json:"steps,omitempty"` // session: store | retrieve | rmbase | setpath, all on ONE backend object
	Dir       string    `json:"dir"`
	Doc       string    `json:"doc_b64,omitempty"`
	NilDoc    bool      `json:"nil_doc,omitempty"`
	NilMeta   bool      `json:"nil_meta,omitempty"`
	NoClobber bool      `json:"noclobber,omitempty"`
	IDs       []string  `json:"ids_b64,omitempty"` // base64 so that arbitrary bytes survive JSON
}

type result struct {
	Err    string `json:"err,omitempty"`
	NilDoc bool   `json:"nil_doc,omitempty"`
	Doc    string `json:"doc_b64,omitempty"`
	Panic  string `json:"panic,omitempty"`
}

func main() {
	// keep the main goroutine on the main thread: the crash-point enumeration (C20) addresses system calls by
	// their index on that thread
	runtime.LockOSThread()
	// the answer travels on the original standard output; whatever the library prints there (warnings) goes to
	// standard error instead, so that it cannot garble the answer
	answer := os.Stdout
	os.Stdout = os.Stderr
	var reqs []request
	if err := json.NewDecoder(os.Stdin).Decode(&reqs); err != nil {
		fmt.Fprintln(os.Stderr, "storechild: bad request:", err)
		os.Exit(3)
	}
	var out []result
	for _, rq := range reqs {
		out = append(out, handle(rq)...)
	}
	if err := json.NewEncoder(answer).Encode(out); err != nil {
		os.Exit(3)
	}
}

func handle(rq request) (res []result) {
	fs := storage.NewFileSystem()
	fs.Options.Path = rq.Dir
	if rq.Op == "session" {
		// one backend object, one writer and one reader for the whole sequence
		w := writer.New(writer.WithStoreRetriever(fs))
		rd := reader.New(reader.WithStoreRetriever(fs))
		for _, st := range rq.Steps {
			switch st.Op {
			case "rmbase":
				res = append(res, result{Err: errString(os.RemoveAll(fs.Options.Path))})
			case "setpath":
				fs.Options.Path = st.Dir
				res = append(res, result{})
			default:
				res = append(res, handleOn(fs, w, rd, st)...)
			}
		}
		return res
	}
	return handleOn(fs, writer.New(writer.WithStoreRetriever(fs)), reader.New(reader.WithStoreRetriever(fs)), rq)
}

func errString(err error) string {
	if err != nil {
		return err.Error()
	}
	return ""
}

func handleOn(fs *storage.FileSystem, w *writer.Writer, rd *reader.Reader, rq request) (res []result) {
	switch rq.Op {
	case "store":
		r := result{}
		func() {
			defer func() {
				if p := recover(); p != nil {
					r.Panic = fmt.Sprint(p)
				}
			}()
			var doc *sbom.Document
			if !rq.NilDoc {
				doc = &sbom.Document{}
				raw, _ := base64.StdEncoding.DecodeString(rq.Doc)
				if err := proto.Unmarshal(raw, doc); err != nil {
					r.Err = "storechild: cannot decode request document: " + err.Error()
					return
				}
				if rq.NilMeta {
					doc.Metadata = nil
				}
			}
			if err := w.StoreWithOptions(doc, &writer.Options{StoreOptions: &storage.StoreOptions{NoClobber: rq.NoClobber}}); err != nil {
				r.Err = err.Error()
			}
		}()
		return []result{r}
	case "retrieve":
		for _, idb := range rq.IDs {
			r := result{}
			func() {
				defer func() {
					if p := recover(); p != nil {
						r.Panic = fmt.Sprint(p)
					}
				}()
				id, _ := base64.StdEncoding.DecodeString(idb)
				doc, err := rd.Retrieve(string(id))
				if err != nil {
					r.Err = err.Error()
				}
				if doc == nil {
					r.NilDoc = true
					return
				}
				raw, merr := proto.Marshal(doc)
				if merr != nil {
					r.Err += " storechild: cannot encode retrieved document: " + merr.Error()
					return
				}
				r.Doc = base64.StdEncoding.EncodeToString(raw)
			}()
			res = append(res, r)
		}
		return res
	}
	return []result{{Err: "storechild: unknown op " + rq.Op}}
}
