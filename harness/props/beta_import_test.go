//go:build verifbeta

package props

// Linking the beta package registers the SPDX 3 serializer (its init does); it is linked only into the
// dedicated test binary built with -tags verifbeta so that it cannot perturb the registry seen by other checks.
import _ "github.com/protobom/protobom/pkg/native/serializers/beta"
