package props

import "github.com/protobom/protobom/pkg/native"

func renderOpts(indent int) *native.RenderOptions { return &native.RenderOptions{Indent: indent} }
