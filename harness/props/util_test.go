package props

import (
	"os"

	"github.com/protobom/protobom/pkg/native"
)

func renderOpts(indent int) *native.RenderOptions { return &native.RenderOptions{Indent: indent} }

func dedupe(in []string) []string {
	seen := map[string]bool{}
	out := []string{}
	for _, s := range in {
		if !seen[s] {
			seen[s] = true
			out = append(out, s)
		}
	}
	return out
}

func osReadFile(p string) ([]byte, error) { return os.ReadFile(p) }
