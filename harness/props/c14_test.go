package props

import (
	"fmt"
	"sort"
	"strings"
	"testing"

	"github.com/protobom/protobom/pkg/sbom"
	"google.golang.org/protobuf/proto"
	"google.golang.org/protobuf/reflect/protoreflect"
	"pgregory.net/rapid"
	"verif/harness/hx"
)

// refDiffFields returns the names of the Node attributes whose content differs between a and b:
// scalars by equality, repeated fields as sets, maps as maps, dates to the second.
func refDiffFields(a, b *sbom.Node) []string {
	var out []string
	fds := a.ProtoReflect().Descriptor().Fields()
	for i := 0; i < fds.Len(); i++ {
		fd := fds.Get(i)
		if hx.RefSetKey(a.ProtoReflect(), fd, true) != hx.RefSetKey(b.ProtoReflect(), fd, true) {
			name := string(fd.Name())
			if oo := fd.ContainingOneof(); oo != nil && !oo.IsSynthetic() {
				name = string(oo.Name()) // the alternative forms of a oneof are one attribute
			}
			if !contains(out, name) {
				out = append(out, name)
			}
		}
	}
	sort.Strings(out)
	return out
}

// applyDiff rebuilds the second node's attributes from the first node and the reported additions
// and removals: scalar: added if non-zero, else cleared if removed is non-zero; sets: (old∖removed)∪added;
// maps: delete removed keys, overlay added; dates: added if set, else cleared if removed is set.
// applyDiff rebuilds from n with the report d. The statement does not say how removals of list entries are applied:
// everyEqual drops every entry equal to a removed one, otherwise one entry per removed element is dropped.
func applyDiff(n *sbom.Node, d *sbom.NodeDiff, everyEqual bool) *sbom.Node {
	r := proto.Clone(n).(*sbom.Node)
	if d == nil {
		return r
	}
	rm, am, mm := d.Removed.ProtoReflect(), d.Added.ProtoReflect(), r.ProtoReflect()
	fds := mm.Descriptor().Fields()
	for i := 0; i < fds.Len(); i++ {
		fd := fds.Get(i)
		switch {
		case fd.IsMap():
			m := mm.Mutable(fd).Map()
			rm.Get(fd).Map().Range(func(k protoreflect.MapKey, _ protoreflect.Value) bool { m.Clear(k); return true })
			am.Get(fd).Map().Range(func(k protoreflect.MapKey, v protoreflect.Value) bool { m.Set(k, v); return true })
		case fd.IsList():
			key := func(v protoreflect.Value) string {
				if fd.Message() != nil {
					return hx.RefKey(v.Message().Interface(), true)
				}
				return v.String()
			}
			removed := map[string]int{}
			rl := rm.Get(fd).List()
			for j := 0; j < rl.Len(); j++ {
				removed[key(rl.Get(j))]++
			}
			old := mm.Get(fd).List()
			var keep []protoreflect.Value
			for j := 0; j < old.Len(); j++ {
				k := key(old.Get(j))
				if removed[k] > 0 {
					if !everyEqual {
						removed[k]--
					}
					continue
				}
				keep = append(keep, old.Get(j))
			}
			al := am.Get(fd).List()
			for j := 0; j < al.Len(); j++ {
				keep = append(keep, al.Get(j))
			}
			mm.Clear(fd)
			nl := mm.Mutable(fd).List()
			for _, v := range keep {
				if fd.Message() != nil {
					v = protoreflect.ValueOfMessage(proto.Clone(v.Message().Interface()).ProtoReflect())
				}
				nl.Append(v)
			}
		case fd.Message() != nil:
			if am.Has(fd) {
				mm.Set(fd, protoreflect.ValueOfMessage(proto.Clone(am.Get(fd).Message().Interface()).ProtoReflect()))
			} else if rm.Has(fd) {
				mm.Clear(fd)
			}
		default:
			if am.Has(fd) {
				mm.Set(fd, am.Get(fd))
			} else if rm.Has(fd) {
				mm.Clear(fd)
			}
		}
	}
	return r
}

func genC14Pair(t *rapid.T) (*sbom.Node, *sbom.Node, string) {
	text := textNoMeta()
	n := genC13Node(t, "n", text)
	mode := rapid.SampledFrom([]string{"same", "1", "2", "5", "independent", "perm", "empty_vs_absent", "duplicates", "duplicates_first", "dup_then_replace", "replace_by_duplicate", "empty_map_value"}).Draw(t, "mode")
	var n2 *sbom.Node
	mutate := func(k int) {
		n2 = proto.Clone(n).(*sbom.Node)
		for i := 0; i < k; i++ {
			ls := hx.Leaves(n2.ProtoReflect(), "")
			ls[rapid.IntRange(0, len(ls)-1).Draw(t, "leaf")].Apply(t)
		}
	}
	switch mode {
	case "same":
		n2 = proto.Clone(n).(*sbom.Node)
	case "1":
		mutate(1)
	case "2":
		mutate(2)
	case "5":
		mutate(5)
	case "independent":
		n2 = genC13Node(t, "m", text)
	case "perm":
		pm, _ := permuteMsg(t, n)
		n2 = pm.(*sbom.Node)
	case "empty_vs_absent":
		n2 = proto.Clone(n).(*sbom.Node)
		n2.Licenses, n2.Attribution, n2.FileTypes = []string{}, nil, []string{}
		n2.Hashes, n2.Identifiers = map[int32]string{}, nil
		n2.Suppliers, n2.ExternalReferences = []*sbom.Person{}, nil
		n.Attribution, n.Identifiers, n.ExternalReferences = []string{}, map[int32]string{}, []*sbom.ExternalReference{}
		n.Licenses, n.FileTypes, n.Hashes, n.Suppliers = nil, nil, nil, nil
		for i, p := range n2.Originators {
			if len(p.Contacts) == 0 {
				p.Contacts, n.Originators[i].Contacts = []*sbom.Person{}, nil
			}
		}
		for i, e := range n2.ExternalReferences {
			if len(e.Hashes) == 0 {
				e.Hashes, n.ExternalReferences[i].Hashes = map[int32]string{}, nil
			}
		}
	case "empty_map_value":
		// the second node gains / changes / loses a map entry whose value is the empty string
		n2 = proto.Clone(n).(*sbom.Node)
		if n2.Hashes == nil {
			n2.Hashes = map[int32]string{}
		}
		if n2.Identifiers == nil {
			n2.Identifiers = map[int32]string{}
		}
		switch rapid.IntRange(0, 3).Draw(t, "emv") {
		case 0:
			n2.Hashes[77] = ""
		case 1:
			n2.Identifiers[78] = ""
		case 2:
			n.Hashes = map[int32]string{3: "abc"}
			n2.Hashes = map[int32]string{3: ""}
		case 3:
			n.Identifiers = map[int32]string{1: "", 2: "x"}
			n2.Identifiers = map[int32]string{2: "x"}
		}
	case "replace_by_duplicate":
		// the SECOND node repeats an element in the place of another one: same length, nothing new, one element gone
		n.Licenses = append(n.Licenses, "LIC-A", "LIC-B")
		n.Suppliers = append(n.Suppliers, &sbom.Person{Name: "acme", IsOrg: true}, &sbom.Person{Name: "bob"})
		n.Originators = append(n.Originators, &sbom.Person{Name: "o1"}, &sbom.Person{Name: "o2", Email: "o@x"})
		n.ExternalReferences = append(n.ExternalReferences, &sbom.ExternalReference{Url: "http://e.x/a", Type: sbom.ExternalReference_VCS}, &sbom.ExternalReference{Url: "http://e.x/b", Type: sbom.ExternalReference_WEBSITE})
		n.FileTypes = append(n.FileTypes, "TEXT", "BINARY")
		n2 = proto.Clone(n).(*sbom.Node)
		switch rapid.IntRange(0, 4).Draw(t, "which") {
		case 0:
			n2.Licenses[len(n2.Licenses)-1] = n2.Licenses[len(n2.Licenses)-2]
		case 1:
			n2.Suppliers[len(n2.Suppliers)-1] = proto.Clone(n2.Suppliers[len(n2.Suppliers)-2]).(*sbom.Person)
		case 2:
			n2.Originators[len(n2.Originators)-1] = proto.Clone(n2.Originators[len(n2.Originators)-2]).(*sbom.Person)
		case 3:
			n2.ExternalReferences[len(n2.ExternalReferences)-1] = proto.Clone(n2.ExternalReferences[len(n2.ExternalReferences)-2]).(*sbom.ExternalReference)
		case 4:
			n2.FileTypes[len(n2.FileTypes)-1] = n2.FileTypes[len(n2.FileTypes)-2]
		}
	case "duplicates_first", "dup_then_replace":
		// the FIRST node carries repeated elements; the second drops the repetition or replaces one copy by a
		// new element (same length, nothing removed as a set)
		if len(n.Licenses) == 0 {
			n.Licenses = []string{"MIT"}
		}
		if len(n.Suppliers) == 0 {
			n.Suppliers = []*sbom.Person{{Name: "acme", IsOrg: true}}
		}
		if len(n.ExternalReferences) == 0 {
			n.ExternalReferences = []*sbom.ExternalReference{{Url: "http://e.x/a", Type: sbom.ExternalReference_VCS}}
		}
		n.Licenses = append(n.Licenses, n.Licenses[0])
		n.Suppliers = append(n.Suppliers, proto.Clone(n.Suppliers[0]).(*sbom.Person))
		n.Originators = append(n.Originators, &sbom.Person{Name: "o"}, &sbom.Person{Name: "o"})
		n.ExternalReferences = append(n.ExternalReferences, proto.Clone(n.ExternalReferences[0]).(*sbom.ExternalReference))
		n.FileTypes = append(n.FileTypes, "TEXT", "TEXT")
		n2 = proto.Clone(n).(*sbom.Node)
		if mode == "dup_then_replace" {
			which := rapid.IntRange(0, 4).Draw(t, "which")
			switch which {
			case 0:
				n2.Licenses[len(n2.Licenses)-1] = "NEW-LICENSE"
			case 1:
				n2.Suppliers[len(n2.Suppliers)-1] = &sbom.Person{Name: "initech"}
			case 2:
				n2.Originators[len(n2.Originators)-1] = &sbom.Person{Name: "other", Email: "o@x"}
			case 3:
				n2.ExternalReferences[len(n2.ExternalReferences)-1] = &sbom.ExternalReference{Url: "http://new", Type: sbom.ExternalReference_WEBSITE}
			case 4:
				n2.FileTypes[len(n2.FileTypes)-1] = "BINARY"
			}
		} else {
			n2.Licenses = n2.Licenses[:len(n2.Licenses)-1]
			n2.Suppliers = n2.Suppliers[:len(n2.Suppliers)-1]
			n2.ExternalReferences = n2.ExternalReferences[:len(n2.ExternalReferences)-1]
		}
	case "duplicates":
		n2 = proto.Clone(n).(*sbom.Node)
		n2.Licenses = append(n2.Licenses, n2.Licenses...)
		n2.PrimaryPurpose = append(n2.PrimaryPurpose, n2.PrimaryPurpose...)
		for _, p := range n2.Suppliers {
			n2.Suppliers = append(n2.Suppliers, proto.Clone(p).(*sbom.Person))
		}
		for _, e := range n2.ExternalReferences {
			n2.ExternalReferences = append(n2.ExternalReferences, proto.Clone(e).(*sbom.ExternalReference))
		}
	}
	return n, n2, mode
}

func c14Property(t *rapid.T) {
	hx.Eval()
	n, n2, mode := genC14Pair(t)
	hx.Class("mode:" + mode)
	want := refDiffFields(n, n2)
	collection := false
	for _, f := range want {
		fd := n.ProtoReflect().Descriptor().Fields().ByName(protoreflect.Name(f))
		if fd != nil && (fd.IsList() || fd.IsMap()) { // (nil: f names a oneof, not a field)
			collection = true
		}
		hx.Class("differs:" + f)
	}
	if len(want) >= 1 && collection {
		if hx.NonTrivial(hx.Digest(hx.RefKey(n, false), hx.RefKey(n2, false))) {
			hx.Sample(func() any {
				return map[string]any{"n": hx.RefKey(n, true), "n2": hx.RefKey(n2, true), "differing": want}
			})
		}
	}
	desc := func() string { return fmt.Sprintf("\n n =%s\n n2=%s", hx.RefKey(n, true), hx.RefKey(n2, true)) }

	if d := n.Diff(n); d != nil {
		t.Fatalf("diffing a node with itself reports %d differences%s", d.DiffCount, desc())
	}
	d := n.Diff(n2)
	if n.Equal(n2) && d != nil {
		t.Fatalf("nodes are Equal but Diff reports %d differences%s", d.DiffCount, desc())
	}
	if (d == nil) != (len(want) == 0) {
		t.Fatalf("Diff nil=%v but the attributes that differ are %v%s", d == nil, want, desc())
	}
	if d == nil {
		return
	}
	// (a side of the report with nothing on it may be nil or empty)
	if d.Added == nil {
		d.Added = &sbom.Node{}
	}
	if d.Removed == nil {
		d.Removed = &sbom.Node{}
	}
	// (a oneof whose set member changes is one attribute or, counted by its members, two: both counts are admissible;
	// without oneofs in the schema the two numbers coincide)
	byField := 0
	for i, fds := 0, n.ProtoReflect().Descriptor().Fields(); i < fds.Len(); i++ {
		if hx.RefSetKey(n.ProtoReflect(), fds.Get(i), true) != hx.RefSetKey(n2.ProtoReflect(), fds.Get(i), true) {
			byField++
		}
	}
	if int(d.DiffCount) < len(want) || int(d.DiffCount) > byField {
		t.Fatalf("DiffCount=%d but %d attributes differ %v%s\n added=%s\n removed=%s", d.DiffCount, len(want), want, desc(), hx.RefKey(d.Added, true), hx.RefKey(d.Removed, true))
	}
	rebuilt := applyDiff(n, d, true)
	if left := refDiffFields(rebuilt, n2); len(left) != 0 {
		rebuilt = applyDiff(n, d, false) // the other admissible way of applying removals
	}
	if left := refDiffFields(rebuilt, n2); len(left) != 0 {
		t.Fatalf("additions and removals do not rebuild the second node: attributes %v still differ%s\n added  =%s\n removed=%s\n rebuilt=%s", left, desc(),
			hx.RefKey(d.Added, true), hx.RefKey(d.Removed, true), hx.RefKey(rebuilt, true))
	}
	// the report only mentions attributes that differ
	for _, side := range []*sbom.Node{d.Added, d.Removed} {
		fds := side.ProtoReflect().Descriptor().Fields()
		for i := 0; i < fds.Len(); i++ {
			fd := fds.Get(i)
			if !hx.FieldEmpty(side.ProtoReflect(), fd) && !contains(want, attrName(fd)) {
				t.Fatalf("Diff reports attribute %s although it does not differ%s", fd.Name(), desc())
			}
		}
	}
}

// attrName: the attribute a field belongs to (the alternative forms of a oneof are one attribute).
func attrName(fd protoreflect.FieldDescriptor) string {
	if oo := fd.ContainingOneof(); oo != nil && !oo.IsSynthetic() {
		return string(oo.Name())
	}
	return string(fd.Name())
}

func contains(xs []string, s string) bool {
	for _, x := range xs {
		if x == s {
			return true
		}
	}
	return false
}

func TestC14(t *testing.T) { rapid.Check(t, c14Property) }

var _ = strings.Join
