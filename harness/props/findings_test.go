package props

import (
	"encoding/json"
	"fmt"
	"os"
	"sort"
	"testing"
)

type kfEntry struct {
	ID         string   `json:"id"`
	Properties []string `json:"properties"`
	Status     string   `json:"status"`
	Summary    string   `json:"summary"`
}

// runFindings executes the witnesses of the findings listed for prop in known_findings.json.
// A witness returns true when the defect is still observable. Open finding still failing: the driver
// prints the KNOWN-FINDING line. Witnesses not listed as open must not fail (plain regression cases).
func runFindings(t *testing.T, prop string, witnesses map[string]func() bool) {
	listed := map[string]kfEntry{}
	if path := os.Getenv("VERIF_KF"); path != "" {
		data, err := os.ReadFile(path)
		if err == nil {
			var f struct {
				Findings []kfEntry `json:"findings"`
			}
			if err := json.Unmarshal(data, &f); err != nil {
				t.Fatalf("HARNESS-SELFTEST cannot parse %s: %v", path, err)
			}
			for _, e := range f.Findings {
				listed[e.ID] = e
			}
		}
	}
	ids := make([]string, 0, len(witnesses))
	for id := range witnesses {
		ids = append(ids, id)
	}
	sort.Strings(ids)
	for _, id := range ids {
		fails := witnesses[id]()
		e, ok := listed[id]
		open := ok && e.Status == "open"
		switch {
		case fails && open:
			fmt.Printf("FINDING-OBSERVED %s\n", id)
		case fails:
			t.Errorf("witness of %s fails but the finding is not listed as open", id)
		case open:
			fmt.Printf("FINDING-STALE %s\n", id)
		}
	}
}
