package props

import (
	"encoding/json"
	"fmt"
	"os"
	"testing"

	"github.com/protobom/protobom/pkg/sbom"
	"verif/harness/hx"
)

// smallList decodes one of the 256 lists over the ids {a,b} with one edge type: nodeMask says which ids are
// nodes (the others dangle), edgeMask which of the four triples exist, rootMask which ids are roots.
type smallList struct{ NodeMask, EdgeMask, RootMask int }

func (l smallList) build() *sbom.NodeList {
	ids := []string{"a", "b"}
	nl := &sbom.NodeList{}
	for i, id := range ids {
		if l.NodeMask&(1<<i) != 0 {
			nl.Nodes = append(nl.Nodes, &sbom.Node{Id: id, Name: "n-" + id})
		}
		if l.RootMask&(1<<i) != 0 {
			nl.RootElements = append(nl.RootElements, id)
		}
	}
	for f := 0; f < 2; f++ {
		var tos []string
		for to := 0; to < 2; to++ {
			if l.EdgeMask&(1<<(f*2+to)) != 0 {
				tos = append(tos, ids[to])
			}
		}
		if len(tos) > 0 {
			nl.Edges = append(nl.Edges, &sbom.Edge{From: ids[f], Type: sbom.Edge_contains, To: tos})
		}
	}
	return nl
}

func allSmallLists() []smallList {
	var out []smallList
	for nm := 0; nm < 4; nm++ {
		for em := 0; em < 16; em++ {
			for rm := 0; rm < 4; rm++ {
				out = append(out, smallList{nm, em, rm})
			}
		}
	}
	return out
}

type smallPair struct{ A, B smallList }

func refIntersectBounds(a, b hx.Sets, got hx.Sets) error {
	inter := map[string]int{}
	for k := range a.Nodes {
		if b.Nodes[k] > 0 {
			inter[k] = 1
		}
	}
	for k := range got.Nodes {
		if inter[k] == 0 {
			return fmt.Errorf("node %q is not in both operands", k)
		}
	}
	for k := range inter {
		if got.Nodes[k] != 1 {
			return fmt.Errorf("node %q present in both operands occurs %d times", k, got.Nodes[k])
		}
	}
	for r := range got.Roots {
		_, ra := a.Roots[r]
		_, rb := b.Roots[r]
		if !(ra || rb) || inter[r] == 0 {
			return fmt.Errorf("root %q is not a surviving root of an operand", r)
		}
	}
	for r := range a.Roots {
		if _, rb := b.Roots[r]; rb && inter[r] > 0 {
			if _, ok := got.Roots[r]; !ok {
				return fmt.Errorf("root %q of both operands is lost", r)
			}
		}
	}
	for tr := range got.Triples {
		_, ta := a.Triples[tr]
		_, tb := b.Triples[tr]
		if !(ta || tb) || inter[tr.From] == 0 || inter[tr.To] == 0 {
			return fmt.Errorf("edge %s is invented or has a non-surviving endpoint", tr)
		}
	}
	for tr := range a.Triples {
		if _, tb := b.Triples[tr]; tb && inter[tr.From] > 0 && inter[tr.To] > 0 {
			if _, ok := got.Triples[tr]; !ok {
				return fmt.Errorf("edge %s of both operands is lost", tr)
			}
		}
	}
	return nil
}

func smallPairCheck(p smallPair, union bool) error {
	a, b := p.A.build(), p.B.build()
	sa, sb := hx.GraphSets(a), hx.GraphSets(b)
	desc := fmt.Sprintf("A=%s B=%s", hx.DescribeNL(a), hx.DescribeNL(b))
	if union {
		want := refUnion(sa, sb)
		if d := setsDiff(hx.GraphSets(cloneNL(a).Union(cloneNL(b))), want); d != "" {
			return fmt.Errorf("A∪B differs from the set model: %s%s", desc, d)
		}
		if d := setsDiff(hx.GraphSets(cloneNL(b).Union(cloneNL(a))), want); d != "" {
			return fmt.Errorf("B∪A differs from the set model (commutativity): %s%s", desc, d)
		}
		r := cloneNL(a)
		r.Add(cloneNL(b))
		if d := setsDiff(hx.GraphSets(r), want); d != "" {
			return fmt.Errorf("A.Add(B) differs from the set model: %s%s", desc, d)
		}
		return nil
	}
	iab, iba := hx.GraphSets(cloneNL(a).Intersect(cloneNL(b))), hx.GraphSets(cloneNL(b).Intersect(cloneNL(a)))
	if err := refIntersectBounds(sa, sb, iab); err != nil {
		return fmt.Errorf("A∩B: %v: %s", err, desc)
	}
	if d := setsDiff(iab, iba); d != "" {
		return fmt.Errorf("intersection not commutative on sets: %s%s", desc, d)
	}
	return nil
}

func runSmallPairs(t *testing.T, sub string, union bool) {
	shard, shards := hx.Shard()
	lists := allSmallLists()
	cnt := 0
	for _, a := range lists {
		for _, b := range lists {
			cnt++
			if cnt%shards != shard {
				continue
			}
			hx.Eval()
			p := smallPair{a, b}
			if err := smallPairCheck(p, union); err != nil {
				hx.RecordFailure(sub, err.Error(), map[string]any{"pair": p, "union": union})
				t.Fatal(err)
			}
			if a.NodeMask&b.NodeMask != 0 && a.EdgeMask != b.EdgeMask && a.EdgeMask != 0 && b.EdgeMask != 0 {
				hx.NonTrivial(hx.Digest(sub, a, b))
				if cnt%9973 == 0 {
					hx.Sample(func() any { return map[string]string{"A": hx.DescribeNL(a.build()), "B": hx.DescribeNL(b.build())} })
				}
			}
		}
	}
	hx.SetExhaustive(true)
	hx.Note("%s: all %d ordered pairs of the %d lists over ids {a,b} (any subset declared as nodes, the rest dangling; any subset of the 4 edge triples; any root subset)", sub, len(lists)*len(lists), len(lists))
}

func TestC09Exhaustive(t *testing.T) { runSmallPairs(t, "C09Exhaustive", true) }
func TestC10Exhaustive(t *testing.T) { runSmallPairs(t, "C10Exhaustive", false) }

func TestC09Replay(t *testing.T) {
	path := os.Getenv("VERIF_REPLAY")
	if path == "" {
		t.Skip("no VERIF_REPLAY")
	}
	data, err := os.ReadFile(path)
	if err != nil {
		t.Fatal(err)
	}
	var c struct {
		Pair  smallPair `json:"pair"`
		Union bool      `json:"union"`
	}
	if err := json.Unmarshal(data, &c); err != nil {
		t.Fatalf("HARNESS-SELFTEST cannot decode replay: %v", err)
	}
	if err := smallPairCheck(c.Pair, c.Union); err != nil {
		t.Fatal(err)
	}
}
