package props

import (
	"bytes"
	"encoding/json"
	"fmt"
	"os"
	"os/exec"
	"runtime"
	"strconv"
	"strings"
	"sync"
	"sync/atomic"
	"testing"

	"github.com/protobom/protobom/pkg/formats"
	"github.com/protobom/protobom/pkg/native"
	sdrivers "github.com/protobom/protobom/pkg/native/serializers"
	"github.com/protobom/protobom/pkg/writer"

	"verif/harness/hx"
)

// Cold start: whatever a package initialises lazily happens on the first call, once per process, so the interleavings
// of *first* calls can only be sampled in fresh processes. TestC17ColdStart re-executes this test binary; each child
// lets 16 goroutines meet at a spin barrier and make the process's first calls into the writer package together.
// Every goroutine works on keys of its own. The oracle is differential: further fresh processes make the same calls
// one after the other - in the order of the goroutine numbers, with the removal moved to the front, and with the
// removal moved to the end (when the built-in drivers come into being is the library's business, so a removal may or
// may not commute with the first lookup) - and the concurrent process must report what one of those sequential orders
// reports (per call: succeeded or not; per key afterwards: the driver registered during the run, a built-in driver, or
// nothing).
const coldChildEnv = "VERIF_C17_COLD_CHILD"

func init() {
	// runs before TestMain's m.Run and before any test touches the library
	v := os.Getenv(coldChildEnv)
	if v == "" {
		return
	}
	order := ""
	if i := strings.Index(v, ":"); i >= 0 {
		order, v = v[:i], v[i+1:]
	}
	scenario, _ := strconv.Atoi(v)
	fmt.Println("COLD-START-RESULT " + strings.Join(coldStartChild(scenario, order), " ;; "))
	os.Exit(0)
}

// order: "" = concurrently; "seq" = one after the other by goroutine number; "first" / "last" = the same with the
// removal made first / last
func coldStartChild(scenario int, order string) []string {
	const ng = 16
	sequential := order != ""
	builtins := []formats.Format{formats.CDX10JSON, formats.CDX11JSON, formats.CDX12JSON, formats.CDX13JSON, formats.CDX14JSON, formats.CDX15JSON, formats.SPDX23JSON}
	// rotate the roles over keys and goroutines with the scenario number
	rot := func(i int) formats.Format { return builtins[(i+scenario)%len(builtins)] }
	regKeys := []formats.Format{rot(0), rot(1)}
	unregKey := rot(2)
	free := []formats.Format{rot(3), rot(4), rot(5), rot(6)}
	custom := []*sdrivers.SPDX23{sdrivers.NewSPDX23(), sdrivers.NewSPDX23()}
	docs := c17Docs()

	results := make([]string, ng) // one line per call: what it returned
	var arrived int32
	call := func(g int) {
		defer func() {
			if p := recover(); p != nil {
				results[g] = fmt.Sprintf("call %d panicked: %v", g, p)
			}
		}()
		role := (g + scenario) % ng
		if !sequential {
			atomic.AddInt32(&arrived, 1)
			for atomic.LoadInt32(&arrived) < ng {
				runtime.Gosched()
			}
		}
		switch {
		case role < 2:
			writer.RegisterSerializer(regKeys[role], custom[role])
			results[g] = fmt.Sprintf("call %d: RegisterSerializer(%s, driver#%d) returned", g, regKeys[role], role)
		case role == 2:
			writer.UnregisterSerializer(unregKey)
			results[g] = fmt.Sprintf("call %d: UnregisterSerializer(%s) returned", g, unregKey)
		case role%2 == 1 || free[role%len(free)] == formats.CDX10JSON || free[role%len(free)] == formats.CDX11JSON:
			// (CycloneDX 1.0 / 1.1 have no JSON encoding: those drivers are looked up, not written with)
			f := free[role%len(free)]
			s, err := writer.GetFormatSerializer(f)
			results[g] = fmt.Sprintf("call %d: GetFormatSerializer(%s) found=%v error=%v", g, f, s != nil, err != nil)
		default:
			f := free[role%len(free)]
			var buf bytes.Buffer
			err := writer.New(writer.WithFormat(f)).WriteStream(docs[g%len(docs)], nopCloser{&buf})
			results[g] = fmt.Sprintf("call %d: New(WithFormat(%s)).WriteStream error=%v valid_json=%v", g, f, err != nil, json.Valid(buf.Bytes()))
		}
	}
	if sequential {
		remover := ((2-scenario)%ng + ng) % ng // the goroutine whose role is the removal
		if order == "first" {
			call(remover)
		}
		for g := 0; g < ng; g++ {
			if g != remover || order == "seq" {
				call(g)
			}
		}
		if order == "last" {
			call(remover)
		}
	} else {
		var wg sync.WaitGroup
		for g := 0; g < ng; g++ {
			wg.Add(1)
			go func(g int) { defer wg.Done(); call(g) }(g)
		}
		wg.Wait()
	}
	// the registry afterwards
	for _, k := range builtins {
		s, err := writer.GetFormatSerializer(k)
		state := "a built-in driver"
		switch {
		case err != nil || s == nil:
			state = "nothing"
		case s == native.Serializer(custom[0]):
			state = "driver#0 (registered during the run)"
		case s == native.Serializer(custom[1]):
			state = "driver#1 (registered during the run)"
		}
		results = append(results, fmt.Sprintf("afterwards: %s -> %s", k, state))
	}
	return results
}

func TestC17ColdStart(t *testing.T) {
	n := 24
	if hx.Thorough() {
		n = 200
	}
	shard, shards := hx.Shard()
	seed := hx.EnvInt("VERIF_SEED", 1)
	exe, err := os.Executable()
	if err != nil {
		t.Fatalf("HARNESS-SELFTEST cannot locate the test binary: %v", err)
	}
	sem := make(chan struct{}, 4)
	var wg sync.WaitGroup
	var mu sync.Mutex
	var bad []string
	for i := 0; i < n; i++ {
		if i%shards != shard {
			continue
		}
		wg.Add(1)
		sem <- struct{}{}
		go func(i int) {
			defer wg.Done()
			defer func() { <-sem }()
			scenario := seed*131 + i
			run := func(mode string) (string, string, error) {
				cmd := exec.Command(exe, "-test.run", "^$")
				cmd.Env = append(os.Environ(), coldChildEnv+"="+mode+strconv.Itoa(scenario), "VERIF_STATS=", "VERIF_JOURNAL=")
				out, err := cmd.CombinedOutput()
				for _, ln := range strings.Split(string(out), "\n") {
					if strings.HasPrefix(ln, "COLD-START-RESULT ") {
						return strings.TrimPrefix(ln, "COLD-START-RESULT "), string(out), err
					}
				}
				return "", string(out), err
			}
			want, sout, serr := run("seq:")
			got, cout, cerr := run("")
			if got != want && got != "" && want != "" && serr == nil && cerr == nil {
				// some sequential order must explain the report: try the removal first and last as well
				for _, o := range []string{"first:", "last:"} {
					if alt, _, aerr := run(o); aerr == nil && alt == got {
						want = alt
						hx.Class("cold_start_explained_by_removal_" + strings.TrimSuffix(o, ":"))
						break
					}
				}
			}
			hx.Eval()
			hx.NonTrivial(hx.Digest("cold", scenario))
			switch {
			case want == "" || serr != nil:
				t.Errorf("HARNESS-SELFTEST the sequential reference process of scenario %d ended unexpectedly (%v): %s", scenario, serr, trunc(sout, 600))
			case strings.Contains(cout, "DATA RACE") || strings.Contains(cout, "fatal error"):
				mu.Lock()
				bad = append(bad, fmt.Sprintf("scenario %d: %s", scenario, trunc(cout, 1500)))
				mu.Unlock()
			case got == "" || cerr != nil:
				t.Errorf("HARNESS-SELFTEST the concurrent process of scenario %d ended unexpectedly (%v): %s", scenario, cerr, trunc(cout, 600))
			case got != want:
				var diff []string
				w, g := strings.Split(want, " ;; "), strings.Split(got, " ;; ")
				for k := range w {
					if k < len(g) && g[k] != w[k] {
						diff = append(diff, fmt.Sprintf("concurrently {%s}, in the sequential orders tried {%s}", g[k], w[k]))
					}
				}
				mu.Lock()
				bad = append(bad, fmt.Sprintf("scenario %d: %s", scenario, strings.Join(diff, "; ")))
				mu.Unlock()
			}
		}(i)
	}
	wg.Wait()
	hx.Class("cold_start_processes")
	if len(bad) > 0 {
		hx.RecordFailure("C17ColdStart", "first calls made concurrently in a fresh process: "+bad[0], map[string]any{"failing_processes": len(bad), "of": n})
		t.Fatalf("%d of %d fresh processes violated the sequential-order clause on their first calls:\n%s", len(bad), n, bad[0])
	}
}
