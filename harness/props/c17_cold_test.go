package props

import (
	"bytes"
	"encoding/json"
	"fmt"
	"os"
	"os/exec"
	"runtime"
	"strconv"
	"strings"
	"sync"
	"sync/atomic"
	"testing"

	"github.com/protobom/protobom/pkg/formats"
	"github.com/protobom/protobom/pkg/native"
	sdrivers "github.com/protobom/protobom/pkg/native/serializers"
	"github.com/protobom/protobom/pkg/writer"

	"verif/harness/hx"
)

// Cold start: whatever a package initialises lazily happens on the first call, once per process, so the interleavings
// of *first* calls can only be sampled in fresh processes. TestC17ColdStart re-executes this test binary; each child
// lets 16 goroutines meet at a spin barrier and make the process's first calls into the writer package together.
// Every goroutine works on keys of its own, so each call has exactly one answer that every sequential order of the
// same calls gives (the first call of any order completes the lazy initialisation before anything else happens):
//   - looking up / writing with a built-in format nobody re-registers succeeds;
//   - after `RegisterSerializer(k, d)` by the only goroutine touching k, a final lookup of k returns d;
//   - after `UnregisterSerializer(k)` by the only goroutine touching k, a final lookup of k fails.
const coldChildEnv = "VERIF_C17_COLD_CHILD"

func init() {
	// runs before TestMain's m.Run and before any test touches the library
	v := os.Getenv(coldChildEnv)
	if v == "" {
		return
	}
	scenario, _ := strconv.Atoi(v)
	if msgs := coldStartChild(scenario); len(msgs) > 0 {
		fmt.Println("COLD-START-VIOLATION scenario=" + v + ": " + strings.Join(msgs, " ;; "))
		os.Exit(3)
	}
	fmt.Println("COLD-START-OK")
	os.Exit(0)
}

func coldStartChild(scenario int) []string {
	const ng = 16
	builtins := []formats.Format{formats.CDX10JSON, formats.CDX11JSON, formats.CDX12JSON, formats.CDX13JSON, formats.CDX14JSON, formats.CDX15JSON, formats.SPDX23JSON}
	// rotate the roles over keys and goroutines with the scenario number
	rot := func(i int) formats.Format { return builtins[(i+scenario)%len(builtins)] }
	regKeys := []formats.Format{rot(0), rot(1)}
	unregKey := rot(2)
	free := []formats.Format{rot(3), rot(4), rot(5), rot(6)}
	custom := []*sdrivers.SPDX23{sdrivers.NewSPDX23(), sdrivers.NewSPDX23()}
	docs := c17Docs()

	var mu sync.Mutex
	var msgs []string
	fail := func(f string, a ...any) { mu.Lock(); msgs = append(msgs, fmt.Sprintf(f, a...)); mu.Unlock() }
	var arrived int32
	var wg sync.WaitGroup
	for g := 0; g < ng; g++ {
		wg.Add(1)
		go func(g int) {
			defer wg.Done()
			defer func() {
				if p := recover(); p != nil {
					fail("g%d panicked: %v", g, p)
				}
			}()
			role := (g + scenario) % ng
			atomic.AddInt32(&arrived, 1)
			for atomic.LoadInt32(&arrived) < ng {
				runtime.Gosched()
			}
			switch {
			case role < 2:
				writer.RegisterSerializer(regKeys[role], custom[role])
			case role == 2:
				writer.UnregisterSerializer(unregKey)
			case role%2 == 1 || free[role%len(free)] == formats.CDX10JSON || free[role%len(free)] == formats.CDX11JSON:
				// (CycloneDX 1.0 / 1.1 have no JSON encoding: those drivers are looked up, not written with)
				f := free[role%len(free)]
				if s, err := writer.GetFormatSerializer(f); err != nil || s == nil {
					fail("g%d: first-call lookup of the built-in format %s failed: %v", g, f, err)
				}
			default:
				f := free[role%len(free)]
				var buf bytes.Buffer
				w := writer.New(writer.WithFormat(f))
				if err := w.WriteStream(docs[g%len(docs)], nopCloser{&buf}); err != nil {
					fail("g%d: first-call write in the built-in format %s failed: %v", g, f, err)
				} else if !json.Valid(buf.Bytes()) {
					fail("g%d: first-call write in %s produced invalid JSON", g, f)
				}
			}
		}(g)
	}
	wg.Wait()
	for i, k := range regKeys {
		if s, err := writer.GetFormatSerializer(k); err != nil || s != native.Serializer(custom[i]) {
			fail("driver registered for %s during the first calls is not the one looked up afterwards (err=%v): lost to the lazy initialisation", k, err)
		}
	}
	if s, err := writer.GetFormatSerializer(unregKey); err == nil {
		fail("format %s was unregistered during the first calls but a lookup afterwards returns a driver (%T)", unregKey, s)
	}
	for _, f := range free {
		if _, err := writer.GetFormatSerializer(f); err != nil {
			fail("built-in format %s is not registered after the first calls: %v", f, err)
		}
	}
	return msgs
}

func TestC17ColdStart(t *testing.T) {
	n := 24
	if hx.Thorough() {
		n = 200
	}
	shard, shards := hx.Shard()
	seed := hx.EnvInt("VERIF_SEED", 1)
	exe, err := os.Executable()
	if err != nil {
		t.Fatalf("HARNESS-SELFTEST cannot locate the test binary: %v", err)
	}
	sem := make(chan struct{}, 4)
	var wg sync.WaitGroup
	var mu sync.Mutex
	var bad []string
	for i := 0; i < n; i++ {
		if i%shards != shard {
			continue
		}
		wg.Add(1)
		sem <- struct{}{}
		go func(i int) {
			defer wg.Done()
			defer func() { <-sem }()
			scenario := seed*131 + i
			cmd := exec.Command(exe, "-test.run", "^$")
			cmd.Env = append(os.Environ(), coldChildEnv+"="+strconv.Itoa(scenario), "VERIF_STATS=", "VERIF_JOURNAL=")
			out, err := cmd.CombinedOutput()
			hx.Eval()
			hx.NonTrivial(hx.Digest("cold", scenario))
			switch {
			case strings.Contains(string(out), "COLD-START-OK") && err == nil:
			case strings.Contains(string(out), "COLD-START-VIOLATION") || strings.Contains(string(out), "DATA RACE") || strings.Contains(string(out), "fatal error"):
				mu.Lock()
				bad = append(bad, fmt.Sprintf("scenario %d: %s", scenario, trunc(string(out), 1500)))
				mu.Unlock()
			default:
				t.Errorf("HARNESS-SELFTEST cold-start child %d ended unexpectedly (%v): %s", scenario, err, trunc(string(out), 600))
			}
		}(i)
	}
	wg.Wait()
	hx.Class("cold_start_processes")
	if len(bad) > 0 {
		hx.RecordFailure("C17ColdStart", "first calls made concurrently in a fresh process: "+bad[0], map[string]any{"failing_processes": len(bad), "of": n})
		t.Fatalf("%d of %d fresh processes violated the sequential-order clause on their first calls:\n%s", len(bad), n, bad[0])
	}
}
