package props

import (
	"bytes"
	"encoding/base64"
	"encoding/json"
	"fmt"
	"os"
	"path/filepath"
	"runtime/debug"
	"strings"
	"testing"
	"time"

	"github.com/protobom/protobom/pkg/formats"
	"github.com/protobom/protobom/pkg/reader"
	"github.com/protobom/protobom/pkg/sbom"
	"pgregory.net/rapid"
	"verif/harness/hx"
)

// Representative documents that populate every member either parser reads.
const baseSPDX = `{
 "spdxVersion": "SPDX-2.3", "dataLicense": "CC0-1.0", "SPDXID": "SPDXRef-DOCUMENT", "name": "doc",
 "documentNamespace": "https://example.com/ns", "comment": "c",
 "creationInfo": {"licenseListVersion": "3.20", "creators": ["Tool: t-1", "Person: p (p@x.y)", "Organization: o"], "created": "2024-01-02T03:04:05Z", "comment": "cc"},
 "externalDocumentRefs": [{"externalDocumentId": "DocumentRef-x", "spdxDocument": "https://e.x/d", "checksum": {"algorithm": "SHA1", "checksumValue": "d6a770ba38583ed4bb4525bd96e50461655d2759"}}],
 "documentDescribes": ["SPDXRef-a"],
 "packages": [
  {"name": "a", "SPDXID": "SPDXRef-a", "versionInfo": "1.0", "packageFileName": "a.tgz", "supplier": "Organization: sup (s@x.y)", "originator": "Person: ori",
   "downloadLocation": "https://e.x/a.tgz", "filesAnalyzed": true, "packageVerificationCode": {"packageVerificationCodeValue": "d6a770ba38583ed4bb4525bd96e50461655d2758", "packageVerificationCodeExcludedFiles": ["x"]},
   "checksums": [{"algorithm": "SHA256", "checksumValue": "0000000000000000000000000000000000000000000000000000000000000000"}, {"algorithm": "MD5", "checksumValue": "1111111111111111111111111111111111111111111111111111111111111111"}], "homepage": "https://e.x", "sourceInfo": "si",
   "licenseConcluded": "MIT", "licenseInfoFromFiles": ["MIT"], "licenseDeclared": "MIT", "licenseComments": "lc", "copyrightText": "(c) a", "summary": "s", "description": "d", "comment": "pc",
   "externalRefs": [{"referenceCategory": "PACKAGE-MANAGER", "referenceType": "purl", "referenceLocator": "pkg:npm/a@1.0", "comment": "x"},
                    {"referenceCategory": "SECURITY", "referenceType": "cpe23Type", "referenceLocator": "cpe:2.3:a:a:a:1.0:*:*:*:*:*:*:*"},
                    {"referenceCategory": "SECURITY", "referenceType": "advisory", "referenceLocator": "https://e.x/adv"},
                    {"referenceCategory": "PERSISTENT-ID", "referenceType": "gitoid", "referenceLocator": "gitoid:blob:sha1:261eeb9e9f8b2b4b0d119366dda99c6fd7d35c64"},
                    {"referenceCategory": "OTHER", "referenceType": "whatever", "referenceLocator": "zzz"}],
   "attributionTexts": ["at"], "primaryPackagePurpose": "LIBRARY", "releaseDate": "2024-01-02T03:04:05Z", "builtDate": "2024-01-01T00:00:00Z", "validUntilDate": "2030-01-01T00:00:00Z",
   "hasFiles": ["SPDXRef-f"], "annotations": [{"annotator": "Person: an", "annotationDate": "2024-01-02T03:04:05Z", "annotationType": "REVIEW", "comment": "ok"}]},
  {"name": "b", "SPDXID": "SPDXRef-b", "downloadLocation": "NOASSERTION", "filesAnalyzed": false, "licenseConcluded": "NOASSERTION", "copyrightText": "NONE", "supplier": "NOASSERTION"}
 ],
 "files": [{"fileName": "./f", "SPDXID": "SPDXRef-f", "fileTypes": ["SOURCE", "TEXT"], "checksums": [{"algorithm": "SHA1", "checksumValue": "aaaaaaaaaaaaaaaaaaaaaaaaaaaaaaaaaaaaaaaaaaaaaaaaaaaaaaaaaaaaaaaa"}], "licenseConcluded": "MIT",
   "licenseInfoInFiles": ["MIT"], "licenseComments": "flc", "copyrightText": "(c) f", "comment": "fc", "noticeText": "n", "fileContributors": ["x"], "attributionTexts": ["fat"]}],
 "snippets": [{"SPDXID": "SPDXRef-s", "snippetFromFile": "SPDXRef-f", "ranges": [{"startPointer": {"offset": 1, "reference": "SPDXRef-f"}, "endPointer": {"offset": 2, "reference": "SPDXRef-f"}}], "licenseConcluded": "MIT", "name": "sn"}],
 "hasExtractedLicensingInfos": [{"licenseId": "LicenseRef-1", "extractedText": "t", "name": "n"}],
 "relationships": [
  {"spdxElementId": "SPDXRef-DOCUMENT", "relationshipType": "DESCRIBES", "relatedSpdxElement": "SPDXRef-a"},
  {"spdxElementId": "SPDXRef-a", "relationshipType": "CONTAINS", "relatedSpdxElement": "SPDXRef-f", "comment": "rc"},
  {"spdxElementId": "SPDXRef-a", "relationshipType": "DEPENDS_ON", "relatedSpdxElement": "SPDXRef-b"},
  {"spdxElementId": "SPDXRef-b", "relationshipType": "DEPENDENCY_OF", "relatedSpdxElement": "SPDXRef-a"}
 ]
}`

const baseCDX = `{
 "bomFormat": "CycloneDX", "specVersion": "1.5", "serialNumber": "urn:uuid:3e671687-395b-41f5-a30f-a58921a69b79", "version": 2,
 "metadata": {"timestamp": "2024-01-02T03:04:05Z", "lifecycles": [{"phase": "build"}, {"name": "custom", "description": "cd"}],
  "tools": [{"vendor": "v", "name": "t", "version": "1"}], "authors": [{"name": "au", "email": "a@x.y", "phone": "1"}],
  "component": {"bom-ref": "root", "type": "application", "name": "rootc", "version": "9", "description": "rd", "copyright": "(c) r",
    "hashes": [{"alg": "SHA-256", "content": "0000000000000000000000000000000000000000000000000000000000000000"}], "licenses": [{"license": {"id": "MIT"}}], "purl": "pkg:npm/root@9", "cpe": "cpe:2.3:a:r:r:9:*:*:*:*:*:*:*",
    "supplier": {"name": "sup", "url": ["https://s"], "contact": [{"name": "c", "email": "c@x.y"}]},
    "externalReferences": [{"type": "vcs", "url": "https://git", "comment": "c", "hashes": [{"alg": "SHA-1", "content": "aaaaaaaaaaaaaaaaaaaaaaaaaaaaaaaaaaaaaaaaaaaaaaaaaaaaaaaaaaaaaaaa"}]}],
    "components": [{"bom-ref": "inroot", "type": "library", "name": "inroot"}]},
  "supplier": {"name": "ms"}, "licenses": [{"expression": "MIT OR Apache-2.0"}], "properties": [{"name": "k", "value": "v"}]},
 "components": [
  {"bom-ref": "a", "type": "library", "name": "a", "version": "1", "group": "g", "scope": "required", "publisher": "p", "author": "x", "mime-type": "text/plain",
   "hashes": [{"alg": "MD5", "content": "1111111111111111111111111111111111111111111111111111111111111111"}, {"alg": "BLAKE3", "content": "2222222222222222222222222222222222222222222222222222222222222222"}], "licenses": [{"license": {"name": "custom", "text": {"content": "t"}}}, {"expression": "MIT"}],
   "purl": "pkg:npm/a@1", "cpe": "cpe:/a:a:a:1", "swid": {"tagId": "t", "name": "n"}, "pedigree": {"notes": "n"},
   "externalReferences": [{"type": "website", "url": "https://w"}, {"type": "model-card", "url": "https://m"}],
   "properties": [{"name": "k", "value": "v"}], "evidence": {"copyright": [{"text": "c"}]},
   "components": [{"type": "file", "name": "noref-file", "hashes": [{"alg": "SHA-512", "content": "3333333333333333333333333333333333333333333333333333333333333333"}]},
                  {"bom-ref": "b", "type": "container", "name": "b", "components": [{"bom-ref": "c", "type": "firmware", "name": "c"}]}]},
  {"type": "data", "name": "noref"}
 ],
 "services": [{"bom-ref": "svc", "name": "svc"}],
 "dependencies": [{"ref": "root", "dependsOn": ["a"]}, {"ref": "a", "dependsOn": ["b", "c"]}],
 "compositions": [{"aggregate": "complete", "assemblies": ["a"]}],
 "vulnerabilities": [{"id": "CVE-1", "affects": [{"ref": "a"}]}],
 "externalReferences": [{"type": "bom", "url": "https://b"}]
}`

var parserFormats = []formats.Format{formats.CDX10JSON, formats.CDX11JSON, formats.CDX12JSON, formats.CDX13JSON, formats.CDX14JSON, formats.CDX15JSON, formats.SPDX23JSON}

type parseOutcome struct {
	What   string
	Panic  string
	Hang   bool
	Detail string
}

// totalityCheck runs detection and every registered parser on data and returns the first contract breach.
// ownOnly limits the forced-format parses to the given formats (nil = all registered parsers).
func totalityCheck(data []byte, forced []formats.Format, budget time.Duration) *parseOutcome {
	run := func(what string, f func() (*sbom.Document, formats.Format, error, bool)) *parseOutcome {
		type res struct {
			doc    *sbom.Document
			format formats.Format
			err    error
			sniff  bool
			pan    string
		}
		ch := make(chan res, 1)
		go func() {
			var r res
			defer func() {
				if p := recover(); p != nil {
					r.pan = fmt.Sprintf("%v\n%s", p, trunc(string(debug.Stack()), 1800))
				}
				ch <- r
			}()
			r.doc, r.format, r.err, r.sniff = f()
		}()
		select {
		case r := <-ch:
			switch {
			case r.pan != "":
				return &parseOutcome{What: what, Panic: r.pan}
			case r.sniff:
				if (r.err == nil) == (r.format == "") {
					return &parseOutcome{What: what, Detail: fmt.Sprintf("detection returned format %q with error %v", r.format, r.err)}
				}
			case r.err != nil && r.doc != nil:
				return &parseOutcome{What: what, Detail: fmt.Sprintf("returned both a document and the error %v", r.err)}
			case r.err == nil && r.doc == nil:
				return &parseOutcome{What: what, Detail: "returned neither a document nor an error"}
			case r.err == nil && (r.doc.Metadata == nil || r.doc.NodeList == nil):
				return &parseOutcome{What: what, Detail: fmt.Sprintf("returned a document with metadata present=%v node list present=%v", r.doc.Metadata != nil, r.doc.NodeList != nil)}
			}
			return nil
		case <-time.After(budget):
			return &parseOutcome{What: what, Hang: true, Detail: fmt.Sprintf("did not return within %v on %d bytes", budget, len(data))}
		}
	}
	if o := run("Sniffer.SniffReader", func() (*sbom.Document, formats.Format, error, bool) {
		f, err := (&formats.Sniffer{}).SniffReader(bytes.NewReader(data))
		return nil, f, err, true
	}); o != nil {
		return o
	}
	if o := run("Reader.ParseStream", func() (*sbom.Document, formats.Format, error, bool) {
		d, err := reader.New().ParseStream(bytes.NewReader(data))
		return d, "", err, false
	}); o != nil {
		return o
	}
	if forced == nil {
		forced = parserFormats
	}
	for _, f := range forced {
		f := f
		if o := run("Reader.ParseStreamWithOptions("+string(f)+")", func() (*sbom.Document, formats.Format, error, bool) {
			// (the reader's own default options with the format stated: an option set missing a group may be refused
			// before any parser runs)
			rd := reader.New()
			o := *rd.Options
			o.Format = f
			d, err := rd.ParseStreamWithOptions(bytes.NewReader(data), &o)
			return d, "", err, false
		}); o != nil {
			return o
		}
	}
	return nil
}

func (o *parseOutcome) String() string {
	switch {
	case o.Panic != "":
		return o.What + " panicked: " + o.Panic
	case o.Hang:
		return o.What + " " + o.Detail
	}
	return o.What + " " + o.Detail
}

type c04Doc struct {
	Name string
	Root *hx.JV
	Own  formats.Format
}

func c04Bases(t interface{ Fatalf(string, ...any) }) []c04Doc {
	repo := os.Getenv("VERIF_REPO_DIR")
	if repo == "" {
		repo = "/repo"
	}
	docs := []c04Doc{}
	add := func(name string, data []byte, own formats.Format) {
		v, err := hx.ParseJV(data)
		if err != nil {
			t.Fatalf("HARNESS-SELFTEST base document %s does not parse: %v", name, err)
		}
		docs = append(docs, c04Doc{name, v, own})
	}
	add("handwritten-spdx-2.3", []byte(baseSPDX), formats.SPDX23JSON)
	add("handwritten-cdx-1.5", []byte(baseCDX), formats.CDX15JSON)
	// the same documents declaring other versions the third-party decoders accept (down-level input reaches
	// conversion code that the current-version path never runs); parsed with the format forced as well
	add("handwritten-spdx-declared-2.2", []byte(strings.Replace(baseSPDX, `"SPDX-2.3"`, `"SPDX-2.2"`, 1)), formats.SPDX23JSON)
	add("handwritten-spdx-declared-2.1", []byte(strings.Replace(baseSPDX, `"SPDX-2.3"`, `"SPDX-2.1"`, 1)), formats.SPDX23JSON)
	add("handwritten-cdx-declared-1.3", []byte(strings.Replace(baseCDX, `"specVersion": "1.5"`, `"specVersion": "1.3"`, 1)), formats.CDX13JSON)
	add("handwritten-cdx-declared-1.1", []byte(strings.Replace(baseCDX, `"specVersion": "1.5"`, `"specVersion": "1.1"`, 1)), formats.CDX11JSON)
	for _, p := range []struct {
		path string
		own  formats.Format
	}{{"test/conformance/testdata/cyclonedx/1.4/json/bom-1.4.json", formats.CDX14JSON}, {"test/conformance/testdata/cyclonedx/1.5/json/bom-1.5.json", formats.CDX15JSON}} {
		data, err := os.ReadFile(filepath.Join(repo, p.path))
		if err != nil {
			t.Fatalf("HARNESS-SELFTEST cannot read %s: %v", p.path, err)
		}
		add(filepath.Base(p.path), data, p.own)
	}
	// the base documents themselves must parse into non-empty graphs, otherwise the faults test nothing
	for _, d := range docs {
		doc, err := parseAs(d.Root.Encode(hx.EncOpts{}), d.Own)
		if err != nil || len(doc.NodeList.Nodes) < 2 {
			t.Fatalf("HARNESS-SELFTEST base document %s: err=%v", d.Name, err)
		}
	}
	return docs
}

// KF-05: licenseChoicesToLicenseString builds a string of size 2^n for n licence entries. Inputs with more
// than kf05MaxLicences entries in one licence list are kept out of the alarm-capable search.
const kf05MaxLicences = 12

func maxLicenceEntries(v *hx.JV) int {
	max := 0
	var walk func(v *hx.JV)
	walk = func(v *hx.JV) {
		switch v.Kind {
		case 'o':
			for _, m := range v.Members {
				if strings.EqualFold(m.Key, "licenses") && m.Val.Kind == 'a' && len(m.Val.Elems) > max {
					max = len(m.Val.Elems)
				}
				walk(m.Val)
			}
		case 'a':
			for _, e := range v.Elems {
				walk(e)
			}
		}
	}
	walk(v)
	return max
}

// kf05Suspect is the byte-level, deliberately coarse form of the same exclusion for inputs that are not one strict
// JSON value (the CycloneDX decoder reads the first value of the stream and ignores what follows, and member names are
// matched without regard to case): more than kf05MaxLicences members named license / expression (the two forms of a CycloneDX licence entry) anywhere in the input.
func kf05Suspect(data []byte) bool {
	lower := bytes.ToLower(data)
	return bytes.Count(lower, []byte(`"license"`))+bytes.Count(lower, []byte(`"expression"`)) > kf05MaxLicences
}

// kf05Witness: the length of the licence expression doubles with each licence entry.
func kf05Witness() bool {
	size := func(n int) int {
		var ls []string
		for i := 0; i < n; i++ {
			ls = append(ls, fmt.Sprintf(`{"license":{"id":"L%d"}}`, i))
		}
		data := `{"bomFormat":"CycloneDX","specVersion":"1.5","version":1,"components":[{"bom-ref":"a","type":"library","name":"a","licenses":[` + strings.Join(ls, ",") + `]}]}`
		doc, err := readDoc([]byte(data))
		if err != nil || len(doc.NodeList.Nodes) != 1 {
			return -1
		}
		return len(doc.NodeList.Nodes[0].LicenseConcluded)
	}
	a, b := size(10), size(16)
	return a > 0 && b > 40*a // polynomial growth from 10 to 16 entries would stay far below a factor 40
}

func TestC04Findings(t *testing.T) {
	hx.Eval()
	runFindings(t, "C04", map[string]func() bool{"KF-05": kf05Witness})
}

type c04Fault struct {
	Doc   string `json:"doc"`
	Path1 int    `json:"path1"`
	Op1   string `json:"op1"`
	Path2 int    `json:"path2"`
	Op2   string `json:"op2"`
	Text  string `json:"text"`
}

func applyFaults(base *hx.JV, f c04Fault) (*hx.JV, string, bool) {
	c := base.Clone()
	ps := c.Paths()
	if f.Path1 >= len(ps) {
		return nil, "", false
	}
	text := ps[f.Path1].Text + ":" + f.Op1
	// the second path is resolved before the first fault is applied (both refer to the base document)
	var p2 hx.JPath
	if f.Op2 != "" {
		if f.Path2 >= len(ps) {
			return nil, "", false
		}
		p2 = ps[f.Path2]
		text += " + " + p2.Text + ":" + f.Op2
	}
	// apply the later path first so that indices of the earlier one stay valid
	if f.Op2 != "" && f.Path2 > f.Path1 {
		if !hx.ApplyFault(p2, f.Op2) {
			return nil, "", false
		}
		if !hx.ApplyFault(ps[f.Path1], f.Op1) {
			return nil, "", false
		}
	} else {
		if !hx.ApplyFault(ps[f.Path1], f.Op1) {
			return nil, "", false
		}
		if f.Op2 != "" && f.Path2 != f.Path1 {
			if !hx.ApplyFault(p2, f.Op2) {
				return nil, "", false
			}
		}
	}
	return c, text, true
}

func c04RunFault(t *testing.T, d c04Doc, f c04Fault, forced []formats.Format) {
	c, text, ok := applyFaults(d.Root, f)
	if !ok {
		return
	}
	f.Text = text
	if n := maxLicenceEntries(c); n > kf05MaxLicences {
		// known finding KF-05: the CycloneDX licence expression doubles with every licence entry
		hx.Excluded("component_with_more_than_12_licence_entries(KF-05)")
		return
	}
	data := c.Encode(hx.EncOpts{})
	hx.Eval()
	hx.Journal([]byte(base64.StdEncoding.EncodeToString(data)))
	if o := totalityCheck(data, forced, c04Budget); o != nil {
		if o.Hang {
			// re-run alone twice before a slow case counts
			if totalityCheck(data, forced, c04Budget) == nil {
				hx.Note("slow case did not reproduce: %s", text)
				return
			}
		}
		hx.RecordFailure("C04Faults", fmt.Sprintf("%s\n  fault: %s in %s", o, text, d.Name), map[string]any{"data_b64": base64.StdEncoding.EncodeToString(data), "fault": f})
		t.Fatalf("%s\n  fault: %s in %s\n  input: %s", o, text, d.Name, trunc(string(data), 1500))
	}
	sec := strings.SplitN(strings.TrimPrefix(text, "/"), "/", 2)[0]
	hx.Class("fault:" + f.Op1)
	hx.Class("section:" + d.Name + ":" + strings.SplitN(sec, ":", 2)[0])
	if hx.NonTrivial(hx.Digest(d.Name, text)) && len(text) < 200 {
		if f.Path1%37 == 0 {
			hx.Sample(func() any { return map[string]string{"base": d.Name, "fault": text} })
		}
	}
}

// TestC04Faults: every single schema fault at every JSON path of the representative documents, and
// sampled (quick) or enumerated (thorough, hand-written documents) double faults.
func TestC04Faults(t *testing.T) {
	shard, shards := hx.Shard()
	docs := c04Bases(t)
	cnt := 0
	for _, d := range docs {
		np := len(d.Root.Paths())
		for p := 0; p < np; p++ {
			for _, op := range hx.FaultOps {
				cnt++
				if cnt%shards != shard {
					continue
				}
				c04RunFault(t, d, c04Fault{Doc: d.Name, Path1: p, Op1: op}, nil)
			}
		}
		hx.Note("%s: all single faults: %d paths x %d operators", d.Name, np, len(hx.FaultOps))
	}
	// double faults
	seed := uint64(hx.EnvInt("VERIF_SEED", 1))
	lcg := func() uint64 { seed = seed*6364136223846793005 + 1442695040888963407; return seed >> 33 }
	if !hx.Thorough() {
		for i := 0; i < 5000; i++ {
			d := docs[lcg()%uint64(len(docs))]
			np := uint64(len(d.Root.Paths()))
			f := c04Fault{Doc: d.Name, Path1: int(lcg() % np), Op1: hx.FaultOps[lcg()%uint64(len(hx.FaultOps))], Path2: int(lcg() % np), Op2: hx.FaultOps[lcg()%uint64(len(hx.FaultOps))]}
			c04RunFault(t, d, f, []formats.Format{d.Own})
		}
		hx.Note("double faults: 5000 sampled (deterministic LCG from VERIF_SEED)")
	} else {
		for _, d := range docs[:2] {
			np := len(d.Root.Paths())
			for p1 := 0; p1 < np; p1++ {
				for p2 := p1 + 1; p2 < np; p2++ {
					cnt++
					if cnt%shards != shard {
						continue
					}
					for _, op1 := range hx.FaultOps[:9] {
						for _, op2 := range hx.FaultOps[:9] {
							c04RunFault(t, d, c04Fault{Doc: d.Name, Path1: p1, Op1: op1, Path2: p2, Op2: op2}, []formats.Format{d.Own})
						}
					}
				}
			}
			hx.Note("%s: all double faults over %d paths x 9 operators each", d.Name, np)
		}
	}
	hx.SetExhaustive(true)
}

// ---- random bytes / token soup -------------------------------------------------------------------------

var soupTokens = []string{"{", "}", "[", "]", ":", ",", `"bomFormat"`, `"CycloneDX"`, `"specVersion"`, `"1.5"`, `"1.4"`, `"spdxVersion"`, `"SPDX-2.3"`,
	`"components"`, `"packages"`, `"files"`, `"relationships"`, `"metadata"`, `"component"`, `"bom-ref"`, `"SPDXID"`, `"SPDXRef-a"`, `"licenses"`, `"license"`,
	`"hashes"`, `"externalRefs"`, `"externalReferences"`, `"dependencies"`, `"dependsOn"`, `"ref"`, `"name"`, `"x"`, "null", "true", "1", "-0", "1e999", `""`, " ", "\n",
	"SPDXVersion: SPDX-2.3", "SPDXVersion:", "'SPDX-2.2'", "\xef\xbb\xbf", "\x00", "\xff"}

func genHostileInput(t *rapid.T) ([]byte, string) {
	kind := rapid.SampledFrom([]string{"bytes", "soup", "truncated", "bom_prefix", "deep", "huge_string", "tagvalue", "wrapped"}).Draw(t, "kind")
	switch kind {
	case "bytes":
		return rapid.SliceOfN(rapid.Byte(), 0, 200).Draw(t, "b"), kind
	case "soup":
		toks := rapid.SliceOfN(rapid.SampledFrom(soupTokens), 0, 60).Draw(t, "toks")
		return []byte(strings.Join(toks, "")), kind
	case "truncated":
		base := rapid.SampledFrom([]string{baseSPDX, baseCDX}).Draw(t, "base")
		return []byte(base[:rapid.IntRange(0, len(base)).Draw(t, "cut")]), kind
	case "bom_prefix":
		base := rapid.SampledFrom([]string{baseSPDX, baseCDX}).Draw(t, "base")
		return append([]byte(rapid.SampledFrom([]string{"\xef\xbb\xbf", "\xff\xfe", " \n\t", "\x00"}).Draw(t, "pfx")), base...), kind
	case "deep":
		n := rapid.SampledFrom([]int{10, 1000, 9999, 10001, 20000}).Draw(t, "depth")
		open := rapid.SampledFrom([]string{"[", `{"components":[`, `{"a":`}).Draw(t, "open")
		head := rapid.SampledFrom([]string{"", `{"bomFormat":"CycloneDX","specVersion":"1.5","components":`, `{"spdxVersion":"SPDX-2.3","packages":`}).Draw(t, "head")
		return []byte(head + strings.Repeat(open, n)), kind
	case "huge_string":
		n := rapid.SampledFrom([]int{1 << 10, 1 << 14, 1 << 17}).Draw(t, "len")
		return []byte(`{"bomFormat":"CycloneDX","specVersion":"1.5","serialNumber":"` + strings.Repeat("A", n) + `","components":[{"name":"` + strings.Repeat("é", n/2) + `"}]}`), kind
	case "tagvalue":
		lines := rapid.SliceOfN(rapid.SampledFrom([]string{"SPDXVersion: SPDX-2.3", "SPDXVersion: SPDX-2.2", "DataLicense: CC0-1.0", "SPDXID: SPDXRef-DOCUMENT", "PackageName: a", "##", "", "\"SPDX-2.3\"", "'SPDX-2.2'", "SPDXVersion:", "SPDX-2.3", strings.Repeat("x", 70000)}), 0, 12).Draw(t, "lines")
		return []byte(strings.Join(lines, "\n")), kind
	default:
		base := rapid.SampledFrom([]string{baseSPDX, baseCDX}).Draw(t, "base")
		w := rapid.SampledFrom([]string{"[%s]", `{"x":%s}`, "%s%s", "%s garbage", `"%s"`}).Draw(t, "wrap")
		if strings.Count(w, "%s") == 2 {
			return []byte(fmt.Sprintf(w, base, base)), kind
		}
		return []byte(fmt.Sprintf(w, base)), kind
	}
}

func c04BytesProperty(t *rapid.T) {
	hx.Eval()
	data, kind := genHostileInput(t)
	hx.Class("kind:" + kind)
	hx.Journal([]byte(base64.StdEncoding.EncodeToString(data)))
	if json.Valid(data) {
		hx.Class("valid_json")
	}
	if kf05Suspect(data) {
		hx.Excluded("input_mentioning_more_than_12_licence_entries(KF-05)")
		return
	}
	hx.NonTrivial(hx.Digest(string(data)))
	if hx.WantSample() && len(data) < 300 && len(data) > 10 {
		hx.Sample(func() any { return map[string]string{"kind": kind, "input": fmt.Sprintf("%q", data)} })
	}
	if o := totalityCheck(data, nil, c04Budget); o != nil {
		if o.Hang {
			// the call is still running in an abandoned goroutine: shrinking would start one more per attempt until the
			// worker runs out of memory. Record the input and end this worker now; the driver replays the recorded case.
			hx.RecordFailure("C04Bytes", fmt.Sprintf("%s (input kind %s)", o, kind), map[string]any{"data_b64": base64.StdEncoding.EncodeToString(data)})
			hx.Flush()
			fmt.Printf("--- FAIL: TestC04Bytes\n    %s (input kind %s, %d bytes)\n", o, kind, len(data))
			os.Exit(1)
		}
		t.Fatalf("%s\n  input kind %s (%d bytes): %q", o, kind, len(data), trunc(string(data), 600))
	}
}

// c04Budget is the wall-clock allowance of one parse. Generated inputs stay below 1 MB and below 1 600 components /
// packages (the library's node grafting is quadratic: 4 000 empty components take seconds), where the library needs
// milliseconds; a minute leaves room for a quadratic pass over such an input on a loaded machine, so that only growth
// far beyond that (or a real hang) trips it. A stopwatch cannot tell polynomial from super-polynomial growth: this is
// the "never hangs" clause, the growth clause is looked at by TestC04Scaling's doubling families.
const c04Budget = 60 * time.Second

func TestC04Bytes(t *testing.T) { rapid.Check(t, c04BytesProperty) }

// ---- scaling: depth-n and width-n families stay within the watchdog (polynomial time) ---------------------

func TestC04Scaling(t *testing.T) {
	family := func(kind string, n int) []byte {
		switch kind {
		case "cdx-depth":
			s := `{"bom-ref":"leaf","type":"library","name":"leaf"}`
			for i := 0; i < n; i++ {
				s = fmt.Sprintf(`{"bom-ref":"d%d","type":"library","name":"d%d","components":[%s]}`, i, i, s)
			}
			return []byte(`{"bomFormat":"CycloneDX","specVersion":"1.5","version":1,"metadata":{"component":{"bom-ref":"root","type":"application","name":"r"}},"components":[` + s + `]}`)
		case "cdx-width":
			var cs []string
			for i := 0; i < n; i++ {
				cs = append(cs, fmt.Sprintf(`{"bom-ref":"w%d","type":"library","name":"w%d","components":[{"bom-ref":"w%d-a","type":"library","name":"x"},{"bom-ref":"w%d-b","type":"library","name":"y"}]}`, i, i, i, i))
			}
			return []byte(`{"bomFormat":"CycloneDX","specVersion":"1.5","version":1,"metadata":{"component":{"bom-ref":"root","type":"application","name":"r"}},"components":[` + strings.Join(cs, ",") + `]}`)
		case "cdx-dup":
			// the same bom-ref repeated at every level (self-containment / duplicates)
			s := `{"bom-ref":"x","type":"library","name":"x"}`
			for i := 0; i < n; i++ {
				s = fmt.Sprintf(`{"bom-ref":"x","type":"library","name":"x","components":[%s,%s]}`, s, `{"bom-ref":"x","type":"library","name":"x"}`)
			}
			return []byte(`{"bomFormat":"CycloneDX","specVersion":"1.5","version":1,"components":[` + s + `]}`)
		default: // spdx-width
			var ps, rs []string
			for i := 0; i < n; i++ {
				ps = append(ps, fmt.Sprintf(`{"name":"p%d","SPDXID":"SPDXRef-p%d","downloadLocation":"NONE"}`, i, i))
				rs = append(rs, fmt.Sprintf(`{"spdxElementId":"SPDXRef-p%d","relationshipType":"DEPENDS_ON","relatedSpdxElement":"SPDXRef-p%d"}`, i, (i+1)%n))
			}
			return []byte(`{"spdxVersion":"SPDX-2.3","dataLicense":"CC0-1.0","SPDXID":"SPDXRef-DOCUMENT","name":"d","documentNamespace":"https://x","packages":[` + strings.Join(ps, ",") + `],"relationships":[` + strings.Join(rs, ",") + `]}`)
		}
	}
	for _, kind := range []string{"cdx-depth", "cdx-width", "cdx-dup", "spdx-width"} {
		var times []string
		for n := 8; n <= 512; n *= 2 {
			data := family(kind, n)
			hx.Eval()
			hx.Journal([]byte(base64.StdEncoding.EncodeToString(data)))
			t0 := time.Now()
			if o := totalityCheck(data, []formats.Format{}, c04Budget); o != nil {
				hx.RecordFailure("C04Scaling", fmt.Sprintf("%s (family %s, n=%d)", o, kind, n), map[string]any{"data_b64": base64.StdEncoding.EncodeToString(data)})
				t.Fatalf("%s (family %s, n=%d, %d bytes)", o, kind, n, len(data))
			}
			times = append(times, fmt.Sprintf("n=%d:%.0fms", n, float64(time.Since(t0).Microseconds())/1000))
			hx.NonTrivial(hx.Digest("scale", kind, n))
		}
		hx.Info("scaling_"+kind, strings.Join(times, " "))
	}
}

// TestC04Replay re-executes one saved input (base64) alone.
func TestC04Replay(t *testing.T) {
	path := os.Getenv("VERIF_REPLAY")
	if path == "" {
		t.Skip("no VERIF_REPLAY")
	}
	raw, err := os.ReadFile(path)
	if err != nil {
		t.Fatal(err)
	}
	var c struct {
		Data string `json:"data_b64"`
	}
	b64 := strings.TrimSpace(string(raw))
	if json.Unmarshal(raw, &c) == nil && c.Data != "" {
		b64 = c.Data
	}
	data, err := base64.StdEncoding.DecodeString(b64)
	if err != nil {
		t.Fatalf("HARNESS-SELFTEST cannot decode replay: %v", err)
	}
	if o := totalityCheck(data, nil, c04Budget); o != nil {
		t.Fatalf("%s\n  input: %q", o, trunc(string(data), 1000))
	}
}
