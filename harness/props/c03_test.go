package props

import (
	"bytes"
	"encoding/json"
	"fmt"
	"os"
	"path/filepath"
	"sort"
	"strings"
	"testing"

	"github.com/protobom/protobom/pkg/formats"
	"github.com/protobom/protobom/pkg/reader"
	"github.com/protobom/protobom/pkg/sbom"
	"github.com/protobom/protobom/pkg/writer"
	"pgregory.net/rapid"
	"verif/harness/hx"
)

// relationship names of the SPDX 2.3 specification (§11.1), keyed by protobom edge type
var spdxRelName = map[sbom.Edge_Type][]string{
	sbom.Edge_amends: {"AMENDS"}, sbom.Edge_ancestor: {"ANCESTOR_OF"}, sbom.Edge_buildDependency: {"BUILD_DEPENDENCY_OF"},
	sbom.Edge_buildTool: {"BUILD_TOOL_OF"}, sbom.Edge_contains: {"CONTAINS"}, sbom.Edge_contained_by: {"CONTAINED_BY"},
	sbom.Edge_copy: {"COPY_OF"}, sbom.Edge_dataFile: {"DATA_FILE_OF"}, sbom.Edge_dependencyManifest: {"DEPENDENCY_MANIFEST_OF"},
	sbom.Edge_dependsOn: {"DEPENDS_ON"}, sbom.Edge_dependencyOf: {"DEPENDENCY_OF"}, sbom.Edge_descendant: {"DESCENDANT_OF"},
	sbom.Edge_describes: {"DESCRIBES"}, sbom.Edge_describedBy: {"DESCRIBED_BY"}, sbom.Edge_devDependency: {"DEV_DEPENDENCY_OF"},
	sbom.Edge_devTool: {"DEV_TOOL_OF"}, sbom.Edge_distributionArtifact: {"DISTRIBUTION_ARTIFACT"}, sbom.Edge_documentation: {"DOCUMENTATION_OF"},
	sbom.Edge_dynamicLink: {"DYNAMIC_LINK"}, sbom.Edge_example: {"EXAMPLE_OF"}, sbom.Edge_expandedFromArchive: {"EXPANDED_FROM_ARCHIVE"},
	sbom.Edge_fileAdded: {"FILE_ADDED"}, sbom.Edge_fileDeleted: {"FILE_DELETED"}, sbom.Edge_fileModified: {"FILE_MODIFIED"},
	sbom.Edge_generates: {"GENERATES"}, sbom.Edge_generatedFrom: {"GENERATED_FROM"}, sbom.Edge_metafile: {"METAFILE_OF"},
	sbom.Edge_optionalComponent: {"OPTIONAL_COMPONENT_OF"}, sbom.Edge_optionalDependency: {"OPTIONAL_DEPENDENCY_OF"}, sbom.Edge_other: {"OTHER"},
	sbom.Edge_packages: {"PACKAGE_OF"}, sbom.Edge_patch: {"PATCH_FOR", "PATCH_APPLIED"}, sbom.Edge_prerequisite: {"HAS_PREREQUISITE"},
	sbom.Edge_prerequisiteFor: {"PREREQUISITE_FOR"}, sbom.Edge_providedDependency: {"PROVIDED_DEPENDENCY_OF"},
	sbom.Edge_requirementFor: {"REQUIREMENT_DESCRIPTION_FOR"}, sbom.Edge_runtimeDependency: {"RUNTIME_DEPENDENCY_OF"},
	sbom.Edge_specificationFor: {"SPECIFICATION_FOR"}, sbom.Edge_staticLink: {"STATIC_LINK"}, sbom.Edge_test: {"TEST_OF"},
	sbom.Edge_testCase: {"TEST_CASE_OF"}, sbom.Edge_testDependency: {"TEST_DEPENDENCY_OF"}, sbom.Edge_testTool: {"TEST_TOOL_OF"},
	sbom.Edge_variant: {"VARIANT_OF"},
}

var allFormats = []formats.Format{formats.CDX10JSON, formats.CDX11JSON, formats.CDX12JSON, formats.CDX13JSON, formats.CDX14JSON,
	formats.CDX15JSON, formats.SPDX23JSON, formats.SPDX22JSON, formats.SPDX23TV, formats.SPDX22TV, spdx3Format}

// the beta SPDX 3 serializer registers itself under this format when its package is linked (tag verifbeta)
const spdx3Format = formats.Format("text/spdx+json;version=3.0")

// registeredOutputFormats: every format constant for which a serializer is registered at run time.
func registeredOutputFormats() []formats.Format {
	var out []formats.Format
	for _, f := range allFormats {
		if s, err := writer.GetFormatSerializer(f); err == nil && s != nil {
			out = append(out, f)
		}
	}
	return out
}

func jsonObj(v any) map[string]any { m, _ := v.(map[string]any); return m }
func jsonArr(v any) []any          { a, _ := v.([]any); return a }
func jsonStr(v any) string         { s, _ := v.(string); return s }

// ---- independent output oracles (encoding/json only) ----------------------------------------------------

func checkSPDXOutput(doc *sbom.Document, out []byte) error {
	var j map[string]any
	if err := json.Unmarshal(out, &j); err != nil {
		return fmt.Errorf("output is not JSON: %v", err)
	}
	emitted := map[string]int{}
	for _, sec := range []string{"packages", "files"} {
		for _, e := range jsonArr(j[sec]) {
			emitted[jsonStr(jsonObj(e)["SPDXID"])]++
		}
	}
	for _, n := range doc.NodeList.Nodes {
		if c := emitted["SPDXRef-"+n.Id]; c != 1 {
			return fmt.Errorf("node %q is emitted %d times among packages and files", n.Id, c)
		}
	}
	if len(emitted) != len(doc.NodeList.Nodes) {
		return fmt.Errorf("output has %d distinct elements for %d nodes (an element was invented): %v", len(emitted), len(doc.NodeList.Nodes), hx.SortedKeys(emitted))
	}
	rels := map[string]int{}
	for _, r := range jsonArr(j["relationships"]) {
		ro := jsonObj(r)
		a, b, ty := jsonStr(ro["spdxElementId"]), jsonStr(ro["relatedSpdxElement"]), jsonStr(ro["relationshipType"])
		for _, end := range []string{a, b} {
			if end == "NONE" || end == "NOASSERTION" {
				continue // keywords of the specification (no / unknown related element), not references
			}
			if end != "SPDXRef-DOCUMENT" && emitted[end] == 0 {
				return fmt.Errorf("relationship %s %s %s refers to %s, which was not emitted", a, ty, b, end)
			}
		}
		rels[a+" "+ty+" "+b]++
	}
	for _, e := range doc.NodeList.Edges {
		for _, to := range e.To {
			found := false
			for _, name := range spdxRelName[e.Type] {
				if rels["SPDXRef-"+e.From+" "+name+" SPDXRef-"+to] > 0 {
					found = true
				}
			}
			if !found {
				return fmt.Errorf("edge %q -%v-> %q has no relationship %v in the output", e.From, e.Type, to, spdxRelName[e.Type])
			}
		}
	}
	// (how root elements are described — DESCRIBES relationships, documentDescribes — is C01's subject: the statement
	// here is about nodes, relationships and references; a documentDescribes entry is a reference, though)
	for _, r := range jsonArr(j["documentDescribes"]) {
		if emitted[jsonStr(r)] == 0 {
			return fmt.Errorf("documentDescribes names %q, which was not emitted", jsonStr(r))
		}
	}
	return nil
}

// checkSPDX3Output: one element per node, one relationship element per edge, the roots verbatim.
func checkSPDX3Output(doc *sbom.Document, out []byte) error {
	var j map[string]any
	if err := json.Unmarshal(out, &j); err != nil {
		return fmt.Errorf("output is not JSON: %v", err)
	}
	// the beta serializer's spelling of member names and type values is not fixed by anything: members are looked up
	// without regard to case, an element is whatever carries an id and is no relationship, relationship types are
	// compared without regard to case and punctuation
	member := func(o map[string]any, name string) any {
		for k, v := range o {
			if strings.EqualFold(k, name) {
				return v
			}
		}
		return nil
	}
	norm := func(s string) string {
		var b strings.Builder
		for _, r := range strings.ToLower(s) {
			if (r >= 'a' && r <= 'z') || (r >= '0' && r <= '9') {
				b.WriteRune(r)
			}
		}
		return b.String()
	}
	emitted := map[string]int{}
	artifact := map[string]bool{} // elements that describe software artifacts (packages, files) or carry no type at all
	type rel struct{ from, typ, to string }
	var rels []rel
	var elements []any
	for k, v := range j {
		if strings.EqualFold(k, "element") || strings.EqualFold(k, "elements") || k == "@graph" {
			elements = append(elements, jsonArr(v)...)
		}
	}
	for _, e := range elements {
		eo := jsonObj(e)
		if from := member(eo, "from"); from != nil {
			for _, to := range jsonArr(member(eo, "to")) {
				rels = append(rels, rel{jsonStr(from), norm(jsonStr(member(eo, "relationshipType"))), jsonStr(to)})
			}
			continue
		}
		if id := jsonStr(member(eo, "spdxId")); id != "" {
			emitted[id]++
			ty := norm(jsonStr(member(eo, "type")))
			if ty == "" || strings.Contains(ty, "package") || strings.Contains(ty, "file") {
				artifact[id] = true
			}
		}
	}
	// The element of a node is the one whose spdxId is the node id, or an IRI ending in it (SPDX 3 identifies elements by
	// IRI; the statement does not fix how the id is spelt in the output, only the read-back clause does and SPDX 3 has no reader).
	elementOf := map[string]string{}
	owner := map[string]string{}
	for _, n := range doc.NodeList.Nodes {
		var hits []string
		for id := range emitted {
			if id == n.Id {
				hits = []string{id}
				break
			}
			if strings.HasSuffix(id, n.Id) {
				if rest := id[:len(id)-len(n.Id)]; strings.HasSuffix(rest, "#") || strings.HasSuffix(rest, "/") || strings.HasSuffix(rest, ":") || strings.HasSuffix(rest, "-") {
					hits = append(hits, id)
				}
			}
		}
		sort.Strings(hits)
		var free []string
		for _, h := range hits {
			if _, taken := owner[h]; !taken {
				free = append(free, h)
			}
		}
		if len(hits) == 1 && hits[0] == n.Id {
			free = hits
		}
		if len(free) == 0 {
			return fmt.Errorf("node %q is emitted 0 times", n.Id)
		}
		// several candidates can only come from ids that are suffixes of one another: take the shortest unclaimed one
		best := free[0]
		for _, h := range free {
			if len(h) < len(best) {
				best = h
			}
		}
		if c := emitted[best]; c != 1 {
			return fmt.Errorf("node %q is emitted %d times", n.Id, c)
		}
		elementOf[n.Id] = best
		owner[best] = n.Id
	}
	// invented nodes: artifact elements that stand for no node (agents, tools, the document element are not nodes)
	for id := range artifact {
		if _, ok := owner[id]; !ok {
			return fmt.Errorf("output has the package or file element %q, which is no node of the document (%d nodes)", id, len(doc.NodeList.Nodes))
		}
	}
	// an edge is expressed by a relationship element between the elements of its ends. The beta SPDX 3 writer has no
	// reader and the statement fixes no vocabulary: SPDX 3.0 renamed most relationship types and dropped the inverse
	// ones (expressed by the forward type with the ends swapped), so neither the type's spelling nor the direction
	// is asserted here; how often the edge's own type name is used is counted.
	for _, e := range doc.NodeList.Edges {
		for _, to := range e.To {
			found, sameName := false, false
			want := norm(e.Type.String())
			for _, r := range rels {
				if (r.from == elementOf[e.From] && r.to == elementOf[to]) || (r.from == elementOf[to] && r.to == elementOf[e.From]) {
					found = true
					sameName = sameName || r.typ == want
				}
			}
			if !found {
				return fmt.Errorf("edge %q -%v-> %q has no relationship element", e.From, e.Type, to)
			}
			hx.ClassIf(sameName, "spdx3_relationship_named_like_the_edge_type")
		}
	}
	for _, r := range rels {
		if emitted[r.from] == 0 || emitted[r.to] == 0 {
			return fmt.Errorf("relationship %q -%s-> %q refers to an element that was not emitted", r.from, r.typ, r.to)
		}
	}
	for _, r := range jsonArr(member(j, "rootElement")) {
		if emitted[jsonStr(r)] == 0 {
			return fmt.Errorf("rootElement names %q, which was not emitted", jsonStr(r))
		}
	}
	return nil
}

type cdxOcc struct {
	count   map[string]int
	parents map[string][]string
	norefs  int
}

func collectCDX(comp map[string]any, parent string, o *cdxOcc) {
	ref, has := comp["bom-ref"].(string)
	if !has || ref == "" {
		o.norefs++
	} else {
		o.count[ref]++
		o.parents[ref] = append(o.parents[ref], parent)
	}
	for _, s := range jsonArr(comp["components"]) {
		collectCDX(jsonObj(s), ref, o)
	}
}

func checkCDXOutput(doc *sbom.Document, out []byte, f formats.Format) error {
	var j map[string]any
	if err := json.Unmarshal(out, &j); err != nil {
		return fmt.Errorf("output is not JSON: %v", err)
	}
	nl := doc.NodeList
	if len(nl.Nodes) == 0 {
		return nil
	}
	// where the serializer puts a root element (metadata.component or the top of the component list, or which of
	// several roots) is its choice: the statement is about nodes, relationships and references
	root := ""
	o := &cdxOcc{count: map[string]int{}, parents: map[string][]string{}}
	if mdc := jsonObj(jsonObj(j["metadata"])["component"]); mdc != nil {
		root = jsonStr(mdc["bom-ref"])
		collectCDX(mdc, "<metadata>", o)
	}
	for _, c := range jsonArr(j["components"]) {
		collectCDX(jsonObj(c), "<top>", o)
	}
	// containment structure of the document
	containers := map[string]map[string]bool{}
	multi := false
	for _, e := range nl.Edges {
		if e.Type != sbom.Edge_contains {
			continue
		}
		for _, to := range e.To {
			if containers[to] == nil {
				containers[to] = map[string]bool{}
			}
			containers[to][e.From] = true
		}
	}
	// "exactly once when containment is a forest": containment statements of both directions count
	allContainers := map[string]map[string]bool{}
	for c, ps := range containers {
		allContainers[c] = map[string]bool{}
		for p := range ps {
			allContainers[c][p] = true
		}
	}
	for _, e := range nl.Edges {
		if e.Type == sbom.Edge_contained_by {
			for _, to := range e.To {
				if allContainers[e.From] == nil {
					allContainers[e.From] = map[string]bool{}
				}
				allContainers[e.From][to] = true
			}
		}
	}
	for _, ps := range allContainers {
		if len(ps) > 1 {
			multi = true
		}
	}
	forest := !multi && acyclicContainers(allContainers)
	ids := map[string]bool{}
	for _, n := range nl.Nodes {
		ids[n.Id] = true
		c := o.count[n.Id]
		if c == 0 {
			return fmt.Errorf("node %q is missing from the output", n.Id)
		}
		if c > 1 && forest {
			return fmt.Errorf("node %q is emitted %d times although containment is a forest", n.Id, c)
		}
	}
	for ref := range o.count {
		if !ids[ref] {
			return fmt.Errorf("output contains component %q which is not a node of the document", ref)
		}
	}
	if o.norefs > 0 {
		return fmt.Errorf("%d components were emitted without bom-ref", o.norefs)
	}
	// containment statements in the other direction (`contained_by` from the node): a tree can hold one parent per
	// component, so nesting a node under any of its stated containers expresses its containment
	containedBy := map[string]map[string]bool{}
	for _, e := range nl.Edges {
		if e.Type == sbom.Edge_contained_by {
			for _, to := range e.To {
				if containedBy[e.From] == nil {
					containedBy[e.From] = map[string]bool{}
				}
				containedBy[e.From][to] = true
			}
		}
	}
	onCycle := nodesOnOrBelowCycle(containers)
	for c, ps := range containers {
		if c == root || onCycle[c] {
			continue
		}
		ok := false
		for p := range ps {
			for _, got := range o.parents[c] {
				if got == p || (p == root && (got == "<top>" || got == "<metadata>")) {
					ok = true
				}
			}
		}
		for _, got := range o.parents[c] {
			ok = ok || containedBy[c][got]
		}
		if !ok {
			return fmt.Errorf("containment of %q is not expressed: contained by %v, emitted under %v", c, hx.SortedKeys(ps), o.parents[c])
		}
	}
	// no invented containment: a node nested under a component is related to it by a containment statement of the
	// document (in either direction: `contains` from the container or `contained_by` from the node)
	for _, n := range nl.Nodes {
		if n.Id == root || len(containers[n.Id]) > 0 {
			continue
		}
		for _, got := range o.parents[n.Id] {
			if got != "<top>" && got != "<metadata>" && got != root && !containedBy[n.Id][got] {
				return fmt.Errorf("node %q is contained by nothing but was emitted under %q", n.Id, got)
			}
		}
	}
	// dependencies
	deps := map[string]map[string]bool{}
	for _, d := range jsonArr(j["dependencies"]) {
		dm := jsonObj(d)
		ref := jsonStr(dm["ref"])
		if o.count[ref] == 0 {
			return fmt.Errorf("dependencies[].ref %q names a component that was not emitted", ref)
		}
		if deps[ref] == nil {
			deps[ref] = map[string]bool{}
		}
		for _, on := range jsonArr(dm["dependsOn"]) {
			if o.count[jsonStr(on)] == 0 {
				return fmt.Errorf("dependsOn %q (of %q) names a component that was not emitted", jsonStr(on), ref)
			}
			deps[ref][jsonStr(on)] = true
		}
	}
	for _, e := range nl.Edges {
		if e.Type != sbom.Edge_dependsOn {
			continue
		}
		for _, to := range e.To {
			if !deps[e.From][to] {
				return fmt.Errorf("dependency %q -> %q is missing from the dependency graph", e.From, to)
			}
		}
	}
	return nil
}

func acyclicContainers(containers map[string]map[string]bool) bool {
	return len(nodesOnOrBelowCycle(containers)) == 0
}

// nodesOnOrBelowCycle: nodes that lie on a containment cycle or are (transitively) contained in one.
func nodesOnOrBelowCycle(containers map[string]map[string]bool) map[string]bool {
	children := map[string][]string{}
	for c, ps := range containers {
		for p := range ps {
			children[p] = append(children[p], c)
		}
	}
	onCycle := map[string]bool{}
	for start := range children {
		// is start reachable from itself?
		seen := map[string]bool{}
		stack := append([]string{}, children[start]...)
		for len(stack) > 0 {
			x := stack[len(stack)-1]
			stack = stack[:len(stack)-1]
			if x == start {
				onCycle[start] = true
				break
			}
			if seen[x] {
				continue
			}
			seen[x] = true
			stack = append(stack, children[x]...)
		}
	}
	res := map[string]bool{}
	var mark func(x string)
	mark = func(x string) {
		if res[x] {
			return
		}
		res[x] = true
		for _, c := range children[x] {
			mark(c)
		}
	}
	for x := range onCycle {
		mark(x)
	}
	return res
}

// ---- read-back: identity attributes --------------------------------------------------------------------

func canRead(f formats.Format) bool {
	switch f {
	case formats.CDX13JSON, formats.CDX14JSON, formats.CDX15JSON, formats.SPDX23JSON, formats.CDX12JSON:
		return true
	}
	return false
}

func sharedHashes(m map[int32]string) string { return cdxHashes(m) } // the 12 CycloneDX algorithms are all SPDX algorithms

func checkReadBack(doc *sbom.Document, out []byte, f formats.Format) error {
	d2, err := reader.New().ParseStreamWithOptions(bytes.NewReader(out), &reader.Options{Format: f})
	if err != nil {
		return fmt.Errorf("reading the output back failed: %v", err)
	}
	idx := map[string]*sbom.Node{}
	for _, n := range d2.NodeList.Nodes {
		idx[n.Id] = n
	}
	isCDX := strings.Contains(string(f), "cyclonedx")
	for _, n := range doc.NodeList.Nodes {
		m := idx[n.Id]
		if m == nil {
			return fmt.Errorf("node %q is not read back", n.Id)
		}
		if m.Name != n.Name {
			return fmt.Errorf("node %q: name read back as %q, want %q", n.Id, m.Name, n.Name)
		}
		carriesVersion := isCDX || n.Type != sbom.Node_FILE
		if carriesVersion && m.Version != n.Version {
			if !(isCDX && f.Version() < "1.4" && n.Version == "" && m.Version == "0.0.0") {
				return fmt.Errorf("node %q: version read back as %q, want %q", n.Id, m.Version, n.Version)
			}
		}
		if sharedHashes(m.Hashes) != sharedHashes(n.Hashes) {
			return fmt.Errorf("node %q: hashes read back as %q, want %q", n.Id, sharedHashes(m.Hashes), sharedHashes(n.Hashes))
		}
		if isCDX || n.Type != sbom.Node_FILE {
			if m.Identifiers[1] != n.Identifiers[1] {
				return fmt.Errorf("node %q: purl read back as %q, want %q", n.Id, m.Identifiers[1], n.Identifiers[1])
			}
			wantCPE, gotCPE := n.Identifiers[3], m.Identifiers[3]
			if isCDX {
				// CycloneDX holds one CPE: when the node has both kinds, which one survives is the serializer's choice
				if _, ok := m.Identifiers[3]; !ok {
					gotCPE = m.Identifiers[2]
				}
				_, has22 := n.Identifiers[2]
				_, has23 := n.Identifiers[3]
				switch {
				case has22 && has23:
					if gotCPE != n.Identifiers[2] && gotCPE != n.Identifiers[3] {
						return fmt.Errorf("node %q: CPE read back as %q, want one of %q / %q", n.Id, gotCPE, n.Identifiers[3], n.Identifiers[2])
					}
					wantCPE = gotCPE
				case has22:
					wantCPE = n.Identifiers[2]
				}
			} else if n.Identifiers[2] != m.Identifiers[2] {
				return fmt.Errorf("node %q: CPE 2.2 read back as %q, want %q", n.Id, m.Identifiers[2], n.Identifiers[2])
			}
			if wantCPE != gotCPE {
				return fmt.Errorf("node %q: CPE read back as %q, want %q", n.Id, gotCPE, wantCPE)
			}
		}
	}
	return nil
}

// checkTranslation writes doc in f and applies the oracles; returns (written, error).
func checkTranslation(doc *sbom.Document, f formats.Format) (bool, error) {
	out, err := writeDoc(doc, f, 2)
	if err != nil {
		return false, nil // a refusal is not a silent loss (multi-root / rootless CycloneDX, CycloneDX < 1.2 JSON)
	}
	switch {
	case f == spdx3Format:
		if err := checkSPDX3Output(doc, out); err != nil {
			return true, fmt.Errorf("%s output: %v\n%s", f, err, trunc(string(out), 2500))
		}
	case strings.Contains(string(f), "spdx") && f.Encoding() == formats.JSON:
		if err := checkSPDXOutput(doc, out); err != nil {
			return true, fmt.Errorf("%s output: %v\n%s", f, err, trunc(string(out), 2500))
		}
	case strings.Contains(string(f), "cyclonedx"):
		if err := checkCDXOutput(doc, out, f); err != nil {
			return true, fmt.Errorf("%s output: %v\n%s", f, err, trunc(string(out), 2500))
		}
	}
	if canRead(f) {
		if err := checkReadBack(doc, out, f); err != nil {
			return true, fmt.Errorf("%s: %v\n%s", f, err, trunc(string(out), 2500))
		}
	}
	return true, nil
}

// ---- (a) generated well-formed documents ------------------------------------------------------------------

func c03Node(t *rapid.T, id string) *sbom.Node {
	n := &sbom.Node{Id: id, Name: hx.TextName().Draw(t, "name")}
	if rapid.Bool().Draw(t, "ver?") {
		n.Version = hx.TextPlainNE().Draw(t, "ver")
	}
	if rapid.IntRange(0, 3).Draw(t, "file") == 0 {
		n.Type = sbom.Node_FILE
	}
	for i := rapid.IntRange(0, 3).Draw(t, "npurp"); i > 0; i-- {
		n.PrimaryPurpose = append(n.PrimaryPurpose, sbom.Purpose(rapid.IntRange(0, nPurposes-1).Draw(t, "purp")))
	}
	for i := rapid.IntRange(0, 3).Draw(t, "nh"); i > 0; i-- {
		if n.Hashes == nil {
			n.Hashes = map[int32]string{}
		}
		algo := int32(rapid.IntRange(1, 17).Draw(t, "algo"))
		n.Hashes[algo] = hashValue(t, "hv", algo) // well-formed digests
	}
	if rapid.Bool().Draw(t, "purl?") {
		n.Identifiers = setID(n.Identifiers, 1, genPurl(t, "purl"))
	}
	switch rapid.IntRange(0, 3).Draw(t, "cpe") {
	case 1:
		n.Identifiers = setID(n.Identifiers, 3, genCPE23(t, "c23"))
	case 2:
		n.Identifiers = setID(n.Identifiers, 2, genCPE22(t, "c22"))
	case 3:
		n.Identifiers = setID(setID(n.Identifiers, 3, genCPE23(t, "c23")), 2, genCPE22(t, "c22"))
	}
	return n
}

var c03Types = []sbom.Edge_Type{sbom.Edge_contains, sbom.Edge_contains, sbom.Edge_dependsOn, sbom.Edge_dependsOn, sbom.Edge_other, sbom.Edge_devDependency, sbom.Edge_generatedFrom, sbom.Edge_variant,
	sbom.Edge_contained_by, sbom.Edge_describes, sbom.Edge_describedBy, sbom.Edge_dependencyOf}

// relationship types that SPDX defines as each other's inverse
var inverseTypes = map[sbom.Edge_Type]sbom.Edge_Type{sbom.Edge_contains: sbom.Edge_contained_by, sbom.Edge_contained_by: sbom.Edge_contains,
	sbom.Edge_describes: sbom.Edge_describedBy, sbom.Edge_describedBy: sbom.Edge_describes, sbom.Edge_dependsOn: sbom.Edge_dependencyOf, sbom.Edge_dependencyOf: sbom.Edge_dependsOn,
	sbom.Edge_generates: sbom.Edge_generatedFrom, sbom.Edge_generatedFrom: sbom.Edge_generates, sbom.Edge_prerequisite: sbom.Edge_prerequisiteFor, sbom.Edge_prerequisiteFor: sbom.Edge_prerequisite}

// addInverseEdges adds, for some existing edge a -T-> b with an inverse type T', the edge b -T'-> a: both
// statements are legitimate, distinct relationships and both must survive translation.
func addInverseEdges(t *rapid.T, nl *sbom.NodeList) bool {
	added := false
	for _, e := range append([]*sbom.Edge{}, nl.Edges...) {
		inv, ok := inverseTypes[e.Type]
		if !ok || len(e.To) == 0 || rapid.IntRange(0, 2).Draw(t, "inverse") != 0 {
			continue
		}
		nl.Edges = append(nl.Edges, &sbom.Edge{From: e.To[0], Type: inv, To: []string{e.From}})
		added = true
	}
	return added
}

// isAutoID: identifiers whose flag section (before the first "--") carries the auto flag are documented to lose their
// bom-ref on CycloneDX output; every other identifier, also in the reserved namespace, is an ordinary identifier.
func isAutoID(id string) bool {
	return strings.HasPrefix(id, "protobom-") && strings.Contains(strings.Split(id, "--")[0], "-auto")
}

// reservedPlainID draws identifiers as sbom.NewNodeIdentifier builds them from names ("protobom--<name>",
// "protobom-node--<name>"), the name made of words that also occur as flags. None of them is auto-flagged.
func reservedPlainID() *rapid.Generator[string] {
	return rapid.Custom(func(t *rapid.T) string {
		words := rapid.SliceOfN(rapid.SampledFrom([]string{"auto", "node", "protobom", "lib", "x", "1.0", "autoconf", "semi-auto"}), 1, 3).Draw(t, "words")
		sep := rapid.SampledFrom([]string{"-", ".", "--"}).Draw(t, "sep")
		return rapid.SampledFrom([]string{"protobom--", "protobom-node--"}).Draw(t, "flags") + strings.Join(words, sep)
	})
}

func c03Property(t *rapid.T) {
	hx.Eval()
	ids := rapid.SliceOfNDistinct(rapid.OneOf(hx.SPDXID(), hx.SPDXID(), reservedPlainID()), 6, 6, rapid.ID[string]).Draw(t, "idpool")
	for _, id := range ids {
		if strings.HasPrefix(id, "protobom-") {
			hx.Class("id_in_reserved_namespace_not_autogenerated")
			break
		}
	}
	nl := hx.GenNodeList(t, "G", hx.GraphOpts{IDs: ids, WellFormed: true, MaxNodes: 6, MaxEdges: 8, Types: c03Types, NodeGen: c03Node})
	hx.ClassIf(addInverseEdges(t, nl), "inverse_relationship_pair")
	if len(nl.Nodes) > 0 && rapid.IntRange(0, 4).Draw(t, "oneRoot") > 0 {
		nl.RootElements = []string{nl.Nodes[rapid.IntRange(0, len(nl.Nodes)-1).Draw(t, "root")].Id}
	}
	doc := sbom.NewDocument()
	doc.Metadata.Id = "urn:uuid:c03"
	doc.Metadata.Version = "1"
	doc.NodeList = nl
	if len(nl.RootElements) == 1 && rapid.Bool().Draw(t, "docname") {
		// Metadata.Name replaces the root component's name (KF-03): keep them equal
		doc.Metadata.Name = nodeByID(nl, nl.RootElements[0]).Name
	}
	rootID := ""
	if len(nl.RootElements) > 0 {
		rootID = nl.RootElements[0]
	}
	depNonRoot, multiPurp, nonForest := false, false, false
	containers := map[string]map[string]bool{}
	for _, e := range nl.Edges {
		for _, to := range e.To {
			if e.Type == sbom.Edge_dependsOn && e.From != rootID && to != rootID {
				depNonRoot = true
			}
			if e.Type == sbom.Edge_contains {
				if containers[to] == nil {
					containers[to] = map[string]bool{}
				}
				containers[to][e.From] = true
			}
		}
	}
	for _, ps := range containers {
		nonForest = nonForest || len(ps) > 1
	}
	nonForest = nonForest || !acyclicContainers(containers)
	for _, n := range nl.Nodes {
		multiPurp = multiPurp || len(n.PrimaryPurpose) >= 2
	}
	hx.ClassIf(depNonRoot, "dependsOn_between_non_root_nodes")
	hx.ClassIf(multiPurp, "node_with_several_purposes")
	hx.ClassIf(nonForest, "containment_not_a_forest")
	hx.ClassIf(len(dedupe(nl.RootElements)) == 1, "single_root")
	if len(nl.Nodes) >= 3 && (depNonRoot || multiPurp || nonForest) {
		if hx.NonTrivial(hx.Digest(hx.Snapshot(doc))) {
			hx.Sample(func() any { return hx.DescribeNL(nl) })
		}
	}
	for _, f := range registeredOutputFormats() {
		written, err := checkTranslation(doc, f)
		if written {
			hx.Class("written:" + string(f))
		} else {
			hx.Class("refused:" + string(f))
		}
		if err != nil {
			t.Fatalf("%v\n document: %s", err, hx.RefKeyOrdered(doc, ""))
		}
	}
}

func TestC03(t *testing.T) { rapid.Check(t, c03Property) }

// ---- (b) documents obtained by parsing (mutated) real SBOMs of the other format ----------------------------

func realFiles(maxSize int64) []string {
	repo := os.Getenv("VERIF_REPO_DIR")
	if repo == "" {
		repo = "/repo"
	}
	var out []string
	seen := map[string]bool{}
	for _, pat := range []string{"test/conformance/testdata/*/*/json/*.json", "examples/*.json", "pkg/formats/testdata/*.json"} {
		m, _ := filepath.Glob(filepath.Join(repo, pat))
		sort.Strings(m)
		for _, p := range m {
			st, err := os.Stat(p)
			if err != nil || st.Size() > maxSize {
				continue
			}
			key := fmt.Sprintf("%s/%d", filepath.Base(p), st.Size())
			if seen[key] {
				continue
			}
			seen[key] = true
			out = append(out, p)
		}
	}
	return out
}

// mutateJSON applies k schema-preserving mutations: delete an optional member, duplicate / delete / swap
// array elements (of arrays of objects).
func mutateJSON(t *rapid.T, v any, k int) any {
	type site struct {
		apply func()
	}
	for i := 0; i < k; i++ {
		var sites, retargets []func()
		// identifiers the document declares: a reference may be retargeted to any of them
		var declared []string
		var collect func(v any)
		collect = func(v any) {
			switch x := v.(type) {
			case map[string]any:
				for _, key := range hx.SortedKeys(x) {
					if s, ok := x[key].(string); ok && (key == "bom-ref" || key == "SPDXID") && s != "" && len(declared) < 400 {
						declared = append(declared, s)
					}
					collect(x[key])
				}
			case []any:
				for _, e := range x {
					collect(e)
				}
			}
		}
		collect(v)
		var walk func(v any)
		walk = func(v any) {
			switch x := v.(type) {
			case map[string]any:
				for _, key := range hx.SortedKeys(x) {
					child := x[key]
					if len(declared) > 1 {
						switch key {
						case "ref", "spdxElementId", "relatedSpdxElement":
							if _, ok := child.(string); ok {
								kk, xx := key, x
								retargets = append(retargets, func() { xx[kk] = declared[rapid.IntRange(0, len(declared)-1).Draw(t, "retarget")] })
							}
						case "dependsOn", "documentDescribes", "hasFiles":
							if arr, ok := child.([]any); ok && len(arr) > 0 {
								aa := arr
								retargets = append(retargets, func() {
									aa[rapid.IntRange(0, len(aa)-1).Draw(t, "retargetAt")] = declared[rapid.IntRange(0, len(declared)-1).Draw(t, "retarget")]
								})
							}
						}
					}
					switch key {
					case "bomFormat", "specVersion", "spdxVersion", "SPDXID", "name", "dataLicense", "documentNamespace", "creationInfo", "type", "bom-ref", "ref":
					default:
						kk, xx := key, x
						sites = append(sites, func() { delete(xx, kk) })
					}
					if arr, ok := child.([]any); ok && len(arr) > 0 {
						if _, isObj := arr[0].(map[string]any); isObj {
							kk, xx, aa := key, x, arr
							sites = append(sites, func() { xx[kk] = aa[:len(aa)-1] })
							sites = append(sites, func() { xx[kk] = append(append([]any{}, aa...), aa[0]) })
							if len(aa) > 1 {
								sites = append(sites, func() {
									c := append([]any{}, aa...)
									c[0], c[len(c)-1] = c[len(c)-1], c[0]
									xx[kk] = c
								})
							}
						}
					}
					walk(child)
				}
			case []any:
				for i, e := range x {
					if i > 40 {
						break
					}
					walk(e)
				}
			}
		}
		walk(v)
		if len(retargets) > 0 && rapid.IntRange(0, 2).Draw(t, "kind") == 0 {
			hx.Class("mutation:reference_retargeted")
			retargets[rapid.IntRange(0, len(retargets)-1).Draw(t, "rsite")]()
			continue
		}
		if len(sites) == 0 {
			return v
		}
		sites[rapid.IntRange(0, len(sites)-1).Draw(t, "site")]()
	}
	return v
}

func c03RealCase(path string, data []byte, label string) error {
	doc, err := readDoc(data)
	if err != nil || doc == nil {
		hx.Class("real:parse_rejected")
		return nil
	}
	if hx.WellFormed(doc.NodeList, false) != nil {
		hx.Excluded("parsed_document_not_well_formed")
		return nil
	}
	auto := false
	for _, n := range doc.NodeList.Nodes {
		auto = auto || isAutoID(n.Id)
	}
	fromCDX := bytes.Contains(data[:min(len(data), 4000)], []byte("bomFormat")) || bytes.Contains(data, []byte("\"bomFormat\""))
	if doc.Metadata != nil && doc.Metadata.Name != "" && len(doc.NodeList.RootElements) == 1 {
		if r := nodeByID(doc.NodeList, doc.NodeList.RootElements[0]); r != nil && r.Name != doc.Metadata.Name {
			hx.Excluded("document_name_differs_from_root_name(KF-03)")
			doc.Metadata.Name = ""
		}
	}
	for _, f := range registeredOutputFormats() {
		isCDX := strings.Contains(string(f), "cyclonedx")
		if isCDX == fromCDX {
			continue // the other format only
		}
		if isCDX && auto {
			hx.Excluded("auto_generated_ids_are_erased_on_CycloneDX_output")
			continue
		}
		written, err := checkTranslation(doc, f)
		if written {
			hx.Class("real:written:" + string(f))
		}
		if err != nil {
			return fmt.Errorf("%s (%s): %v", filepath.Base(path), label, err)
		}
	}
	hx.NonTrivial(hx.Digest("real", path, label, hx.Digest(string(data))))
	return nil
}

func TestC03Real(t *testing.T) {
	maxSize := int64(250 << 10)
	nmut := 6
	if hx.Thorough() {
		maxSize, nmut = 3<<20, 60
	}
	shard, shards := hx.Shard()
	files := realFiles(maxSize)
	if len(files) < 5 {
		t.Fatalf("HARNESS-SELFTEST only %d real SBOM files found", len(files))
	}
	for fi, path := range files {
		if fi%shards != shard {
			continue
		}
		data, err := os.ReadFile(path)
		if err != nil {
			t.Fatal(err)
		}
		hx.Eval()
		if err := c03RealCase(path, data, "verbatim"); err != nil {
			hx.RecordFailure("C03Real", err.Error(), map[string]any{"file": path, "mutations": 0})
			t.Fatal(err)
		}
		hx.Sample(func() any { return "real file " + path + " parsed and written in every format of the other family" })
		if len(data) > 300<<10 && !hx.Thorough() {
			continue
		}
		n := nmut
		if len(data) > 1<<20 {
			n = nmut / 10
		}
		for m := 0; m < n; m++ {
			seed := uint64(hx.EnvInt("VERIF_SEED", 1))*7919 + uint64(fi)*131 + uint64(m)
			var ferr error
			mutated := rapid.Custom(func(rt *rapid.T) []byte {
				var v any
				if err := json.Unmarshal(data, &v); err != nil {
					return nil
				}
				v = mutateJSON(rt, v, rapid.IntRange(1, 5).Draw(rt, "k"))
				b, _ := json.Marshal(v)
				return b
			}).Example(int(seed % (1 << 30)))
			hx.Eval()
			if ferr = c03RealCase(path, mutated, fmt.Sprintf("mutation %d", m)); ferr != nil {
				hx.RecordFailure("C03Real", ferr.Error(), map[string]any{"file": path, "mutated_b64_len": len(mutated)})
				t.Fatal(ferr)
			}
		}
	}
}

func TestC03Findings(t *testing.T) {
	hx.Eval()
	runFindings(t, "C03", map[string]func() bool{"KF-03": kf03Witness})
}
