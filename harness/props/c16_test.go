package props

import (
	"errors"
	"fmt"
	"sort"
	"strings"
	"testing"

	"github.com/protobom/protobom/pkg/sbom"
	"pgregory.net/rapid"
	"verif/harness/hx"
)

func c16Hashes(t *rapid.T, l string, allowEmptyVal bool) map[int32]string {
	n := rapid.IntRange(0, 3).Draw(t, l+"n")
	if n == 0 {
		if rapid.Bool().Draw(t, l+"nil") {
			return nil
		}
		return map[int32]string{}
	}
	// two well-formed lower-case digests per algorithm (1 MD5, 2 SHA-1, 3 SHA-256): what a hash value is when it is no
	// digest of its algorithm, and whether such values "agree", is not part of the rule
	vals := []string{"1", "2"}
	if allowEmptyVal {
		vals = append(vals, "")
	}
	m := map[int32]string{}
	for i := 0; i < n; i++ {
		a := rapid.IntRange(1, 3).Draw(t, l+"a")
		v := rapid.SampledFrom(vals).Draw(t, l+"v")
		if v != "" {
			v = strings.Repeat(v+"a", []int{0, 16, 20, 32}[a])
		}
		m[int32(a)] = v
	}
	return m
}

func c16Node(t *rapid.T, id string, allowEmptyVal bool) *sbom.Node {
	n := &sbom.Node{Id: id, Hashes: c16Hashes(t, "h", allowEmptyVal), Name: rapid.SampledFrom([]string{"", "n1", "n2"}).Draw(t, "name")}
	if rapid.IntRange(0, 3).Draw(t, "file") == 0 {
		n.Type = sbom.Node_FILE
	}
	switch rapid.IntRange(0, 5).Draw(t, "ids") {
	case 1:
		n.Identifiers = map[int32]string{1: "pkg:npm/a@1"}
	case 2:
		n.Identifiers = map[int32]string{1: "pkg:deb/b@1", 3: "cpe:2.3:x"}
	case 3:
		n.Identifiers = map[int32]string{1: ""}
	case 4:
		n.Identifiers = map[int32]string{2: "cpe:/x", 4: "gitoid:blob:sha1:aa"}
	case 5:
		n.Identifiers = map[int32]string{1: "pkg:/npm/a@1", 3: "cpe:2.3:x"}
	}
	return n
}

func refHashesMatch(n *sbom.Node, th map[int32]string) bool {
	if len(n.Hashes) == 0 || len(th) == 0 {
		return false
	}
	common := 0
	for a, v := range th {
		if nv, ok := n.Hashes[a]; ok {
			if nv != v {
				return false
			}
			common++
		}
	}
	return common > 0
}

func refPurl(n *sbom.Node) string {
	if n.Type == sbom.Node_FILE {
		return ""
	}
	return n.Identifiers[int32(sbom.SoftwareIdentifierType_PURL)]
}

// refMatch is the documented rule: a unique node whose common hash algorithms all agree, else a unique
// node with the same package URL; the package URL breaks ties among several hash matches; explicit
// ambiguity otherwise.
func refMatch(nl *sbom.NodeList, p *sbom.Node) (*sbom.Node, bool, int) {
	var h []*sbom.Node
	for _, n := range nl.Nodes {
		if refHashesMatch(n, p.Hashes) {
			h = append(h, n)
		}
	}
	purl := refPurl(p)
	switch {
	case len(h) == 1:
		return h[0], false, 1
	case len(h) == 0:
		if purl == "" {
			return nil, false, 0
		}
		var c []*sbom.Node
		for _, n := range nl.Nodes {
			if refPurl(n) == purl {
				c = append(c, n)
			}
		}
		if len(c) == 1 {
			return c[0], false, 0
		}
		if len(c) == 0 {
			return nil, false, 0
		}
		return nil, true, 0
	default:
		if purl == "" {
			return nil, true, len(h)
		}
		var c []*sbom.Node
		for _, n := range h {
			if refPurl(n) == purl {
				c = append(c, n)
			}
		}
		if len(c) == 1 {
			return c[0], false, len(h)
		}
		return nil, true, len(h)
	}
}

func ptrIn(nl *sbom.NodeList, n *sbom.Node) bool {
	for _, m := range nl.Nodes {
		if m == n {
			return true
		}
	}
	return false
}

func idsOf(ns []*sbom.Node) string {
	s := []string{}
	for _, n := range ns {
		s = append(s, n.Id)
	}
	sort.Strings(s)
	return strings.Join(s, ",")
}

var identifierQueries = []struct {
	q string
	t sbom.SoftwareIdentifierType
}{
	{"purl", sbom.SoftwareIdentifierType_PURL}, {"cpe22Type", sbom.SoftwareIdentifierType_CPE22}, {"cpe23Type", sbom.SoftwareIdentifierType_CPE23},
	{"gitoid", sbom.SoftwareIdentifierType_GITOID}, {"cpe22", sbom.SoftwareIdentifierType_CPE22}, {"cpe23", sbom.SoftwareIdentifierType_CPE23},
	// (only the SPDX reference type names and the names of the identifier types themselves; which other spellings the
	// lookup understands — aliases, letter case, blanks — is not stated)
}

func c16Property(t *rapid.T) {
	hx.Eval()
	emptyVals := rapid.IntRange(0, 4).Draw(t, "emptyvals") == 0
	ids := rapid.SliceOfNDistinct(rapid.SampledFrom(append([]string{"f"}, hx.SmallIDs...)), 0, 6, rapid.ID[string]).Draw(t, "ids")
	nl := &sbom.NodeList{}
	for _, id := range ids {
		nl.Nodes = append(nl.Nodes, c16Node(t, id, emptyVals))
	}
	nl.RootElements = rapid.SliceOfN(rapid.SampledFrom(append([]string{"zz"}, hx.SmallIDs...)), 0, 3).Draw(t, "roots")
	probe := c16Node(t, "probe", emptyVals)
	desc := func() string {
		var b strings.Builder
		for _, n := range nl.Nodes {
			fmt.Fprintf(&b, "{%s type=%v hashes=%v ids=%v name=%q} ", n.Id, n.Type, n.Hashes, n.Identifiers, n.Name)
		}
		fmt.Fprintf(&b, "roots=%q probe={type=%v hashes=%v ids=%v}", nl.RootElements, probe.Type, probe.Hashes, probe.Identifiers)
		return b.String()
	}

	// ---- matching
	want, wantErr, nHash := refMatch(nl, probe)
	purlTie := false
	if p := refPurl(probe); p != "" {
		c := 0
		for _, n := range nl.Nodes {
			if refPurl(n) == p {
				c++
			}
		}
		purlTie = c >= 2
	}
	hx.ClassIf(nHash >= 2, "several_hash_candidates")
	hx.ClassIf(purlTie, "purl_tie")
	hx.ClassIf(wantErr, "ambiguous")
	hx.ClassIf(emptyVals, "empty_hash_values(weak oracle)")
	if nHash >= 2 || purlTie {
		if hx.NonTrivial(hx.Digest(desc())) {
			hx.Sample(func() any { return desc() })
		}
	}
	// "the same package URL": a purl written `pkg:/type/…` and one written `pkg:type/…` are the same purl to a matcher
	// that normalises and different ones to a matcher that compares text; with both spellings in play the rule is
	// asserted only as far as both readings agree (stability, membership)
	altSpelling := strings.HasPrefix(probe.Identifiers[1], "pkg:/")
	for _, n := range nl.Nodes {
		altSpelling = altSpelling || strings.HasPrefix(n.Identifiers[1], "pkg:/")
	}
	hx.ClassIf(altSpelling, "purl_in_alternative_spelling")
	lists := []*sbom.NodeList{nl}
	for i := 0; i < 4; i++ {
		lists = append(lists, &sbom.NodeList{Nodes: hx.Permute(t, "perm", nl.Nodes), RootElements: nl.RootElements})
	}
	var first *sbom.Node
	var firstErr error
	for li, l := range lists {
		for rep := 0; rep < 5; rep++ {
			got, err := l.GetMatchingNode(probe)
			hx.ClassIf(err != nil && !errors.Is(err, sbom.ErrorMoreThanOneMatch), "ambiguity_error_of_another_kind")
			if got != nil && err != nil {
				t.Fatalf("GetMatchingNode returned both a node and an error: %s", desc())
			}
			if got != nil && !ptrIn(nl, got) {
				t.Fatalf("GetMatchingNode returned a node outside the list: %s", desc())
			}
			if li == 0 && rep == 0 {
				first, firstErr = got, err
			} else if got != first || (err != nil) != (firstErr != nil) {
				t.Fatalf("GetMatchingNode depends on node order or map iteration: first (%v,%v) then (%v,%v) [perm %d rep %d]: %s", idOrNil(first), firstErr, idOrNil(got), err, li, rep, desc())
			}
			if !emptyVals && !altSpelling {
				if wantErr != (err != nil) || got != want {
					t.Fatalf("GetMatchingNode = (%v, %v), documented rule gives (%v, ambiguous=%v): %s", idOrNil(got), err, idOrNil(want), wantErr, desc())
				}
			}
		}
	}

	// ---- plain lookups
	for _, id := range append([]string{"zz", "f"}, hx.SmallIDs...) {
		got := nl.GetNodeByID(id)
		var exp *sbom.Node
		for _, n := range nl.Nodes {
			if n.Id == id {
				exp = n
				break
			}
		}
		if got != exp {
			t.Fatalf("GetNodeByID(%q) = %v want %v: %s", id, idOrNil(got), idOrNil(exp), desc())
		}
	}
	for _, name := range []string{"", "n1", "n2", "n3"} {
		var exp []*sbom.Node
		for _, n := range nl.Nodes {
			if n.Name == name {
				exp = append(exp, n)
			}
		}
		got := nl.GetNodesByName(name)
		if idsOf(got) != idsOf(exp) {
			t.Fatalf("GetNodesByName(%q) = [%s] want [%s]: %s", name, idsOf(got), idsOf(exp), desc())
		}
		for _, g := range got {
			if !ptrIn(nl, g) {
				t.Fatalf("GetNodesByName returned a node outside the list")
			}
		}
	}
	for _, q := range identifierQueries {
		for _, v := range []string{"pkg:npm/a@1", "pkg:deb/b@1", "cpe:2.3:x", "cpe:/x", "gitoid:blob:sha1:aa", "", "nope"} {
			var exp []*sbom.Node
			for _, n := range nl.Nodes {
				if val, ok := n.Identifiers[int32(q.t)]; ok && val == v {
					exp = append(exp, n)
				}
			}
			got := nl.GetNodesByIdentifier(q.q, v)
			if idsOf(got) != idsOf(exp) {
				t.Fatalf("GetNodesByIdentifier(%q,%q) = [%s] want [%s]: %s", q.q, v, idsOf(got), idsOf(exp), desc())
			}
		}
	}
	if got := nl.GetNodesByIdentifier("bogus", "pkg:npm/a@1"); len(got) != 0 {
		// an unknown type string resolves to the unknown identifier type (key 0), which no generated node carries
		t.Fatalf("GetNodesByIdentifier with an unknown type returned [%s]: %s", idsOf(got), desc())
	}
	{
		rootSet := map[string]bool{}
		for _, r := range nl.RootElements {
			rootSet[r] = true
		}
		var exp []*sbom.Node
		for _, n := range nl.Nodes {
			if rootSet[n.Id] {
				exp = append(exp, n)
			}
		}
		got := nl.GetRootNodes()
		if idsOf(got) != idsOf(exp) {
			t.Fatalf("GetRootNodes = [%s] want [%s]: %s", idsOf(got), idsOf(exp), desc())
		}
		for _, g := range got {
			if !ptrIn(nl, g) {
				t.Fatalf("GetRootNodes returned a node outside the list")
			}
		}
		d := &sbom.Document{NodeList: nl}
		if idsOf(d.GetRootNodes()) != idsOf(exp) {
			t.Fatalf("Document.GetRootNodes = [%s] want [%s]", idsOf(d.GetRootNodes()), idsOf(exp))
		}
	}
	for _, pt := range []string{"npm", "deb", "gem", "np"} {
		var exp []*sbom.Node
		for _, n := range nl.Nodes {
			p := refPurl(n)
			if strings.HasPrefix(p, "pkg:"+pt+"/") || strings.HasPrefix(p, "pkg:/"+pt+"/") {
				exp = append(exp, n)
			}
		}
		got := nl.GetNodesByPurlType(pt)
		if idsOf(got.GetNodes()) != idsOf(exp) {
			t.Fatalf("GetNodesByPurlType(%q) = [%s] want [%s]: %s", pt, idsOf(got.GetNodes()), idsOf(exp), desc())
		}
	}
}

func idOrNil(n *sbom.Node) string {
	if n == nil {
		return "<nil>"
	}
	return n.Id
}

func TestC16(t *testing.T) { rapid.Check(t, c16Property) }

// KF-07: GetMatchingNode collects its hash candidates by node identifier, so two different nodes of the list that
// share an identifier and both agree with the probe count as one candidate: a node is returned (whichever comes first
// in the list) where the documented rule asks for the ambiguity error.
func kf07Witness() bool {
	h := strings.Repeat("1a", 16)
	f1 := &sbom.Node{Id: "f", Name: "first", Hashes: map[int32]string{1: h}}
	f2 := &sbom.Node{Id: "f", Name: "second", Hashes: map[int32]string{1: h}}
	probe := &sbom.Node{Id: "probe", Hashes: map[int32]string{1: h}}
	g1, e1 := (&sbom.NodeList{Nodes: []*sbom.Node{f1, f2}}).GetMatchingNode(probe)
	g2, e2 := (&sbom.NodeList{Nodes: []*sbom.Node{f2, f1}}).GetMatchingNode(probe)
	return e1 == nil && e2 == nil && g1 != nil && g2 != nil && g1 != g2
}

func TestC16Findings(t *testing.T) {
	hx.Eval()
	runFindings(t, "C16", map[string]func() bool{"KF-07": kf07Witness})
}
