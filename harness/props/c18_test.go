package props

import (
	"bytes"
	"fmt"
	"io"
	"strings"
	"testing"

	"github.com/protobom/protobom/pkg/formats"
	"github.com/protobom/protobom/pkg/native"
	drivers "github.com/protobom/protobom/pkg/native/unserializers"
	"github.com/protobom/protobom/pkg/reader"
	"github.com/protobom/protobom/pkg/sbom"
	"github.com/protobom/protobom/pkg/storage"
	"github.com/protobom/protobom/pkg/writer"
	"pgregory.net/rapid"
	"verif/harness/hx"
)

const fakeFormat = formats.Format("application/x-verif-fake+json;version=1.0")

// fakeSerializer records the options that reach the driver.
type fakeSerializer struct {
	serializeOpts *native.SerializeOptions
	renderOpts    *native.RenderOptions
	formatOptsS   interface{}
	formatOptsR   interface{}
	calls         int
}

func (f *fakeSerializer) Serialize(_ *sbom.Document, so *native.SerializeOptions, fo interface{}) (interface{}, error) {
	f.serializeOpts, f.formatOptsS = so, fo
	f.calls++
	return "native", nil
}

func (f *fakeSerializer) Render(_ interface{}, w io.Writer, ro *native.RenderOptions, fo interface{}) error {
	f.renderOpts, f.formatOptsR = ro, fo
	_, err := w.Write([]byte(`{"fake":true}`))
	return err
}

type fakeUnserializer struct {
	unserializeOpts *native.UnserializeOptions
	formatOpts      interface{}
	calls           int
}

func (f *fakeUnserializer) Unserialize(_ io.Reader, uo *native.UnserializeOptions, fo interface{}) (*sbom.Document, error) {
	f.unserializeOpts, f.formatOpts = uo, fo
	f.calls++
	return sbom.NewDocument(), nil
}

// recStore is a storage backend that records what reaches it. It behaves like a real backend: it holds the documents
// stored in it (plus one it was born with, "urn:x") and answers an identifier it does not hold with an error.
type recStore struct {
	name      string
	stores    int
	retrieves int
	lastStore *storage.StoreOptions
	lastRetr  *storage.RetrieveOptions
	lastID    string
	held      map[string]bool
}

func (r *recStore) Store(d *sbom.Document, o *storage.StoreOptions) error {
	r.stores++
	r.lastStore, r.lastID = o, d.GetMetadata().GetId()
	if r.held == nil {
		r.held = map[string]bool{}
	}
	r.held[r.lastID] = true
	return nil
}

func (r *recStore) Retrieve(id string, o *storage.RetrieveOptions) (*sbom.Document, error) {
	r.retrieves++
	r.lastRetr, r.lastID = o, id
	if id != "urn:x" && !r.held[id] {
		return nil, fmt.Errorf("%s holds no document %q", r.name, id)
	}
	d := sbom.NewDocument()
	d.Metadata.Id = id
	return d, nil
}

// recSniffer records detections and answers with a fixed format.
type recSniffer struct {
	name  string
	calls int
}

func (r *recSniffer) SniffReader(io.ReadSeeker) (formats.Format, error) {
	r.calls++
	return formats.CDX15JSON, nil
}
func (r *recSniffer) SniffFile(string) (formats.Format, error) {
	r.calls++
	return formats.CDX15JSON, nil
}

var (
	fakeSerKey   = fmt.Sprintf("%T", &fakeSerializer{})
	fakeUnserKey = fmt.Sprintf("%T", &fakeUnserializer{})
	foKeys       = []string{fakeSerKey, fakeUnserKey, "other-driver"}
)

type writerModel struct {
	format    formats.Format
	indent    int
	serialize *native.SerializeOptions // nil = library default
	noClobber bool
	fo        map[string]interface{}
	store     *recStore // nil = the library's filesystem backend
	reconf    bool      // the public Options were edited after construction: whether later calls honour such edits is not stated (only that no other instance sees them)
	nilOpts   bool      // nil-valued options were passed too: what those mean is not stated, so this instance's own render / store / backend state is not asserted
}

type readerModel struct {
	unserialize *native.UnserializeOptions // nil = library default
	retrieve    *storage.RetrieveOptions
	fo          map[string]interface{}
	store       *recStore   // nil = the library's filesystem backend
	sniffer     *recSniffer // nil = the library's detection
	nilOpts     bool
	reconf      bool
}

const minimalCDX15 = `{"bomFormat":"CycloneDX","specVersion":"1.5","version":1,"components":[{"bom-ref":"a","type":"library","name":"a"}]}`

// resetSharedDefaults makes every case a pure function of its own history: if instances share one defaults
// object (the defect this property exposes) whatever earlier cases wrote into it is undone through a throw-away
// instance; on a tree where instances are isolated this touches only that throw-away instance.
func resetSharedDefaults() {
	wo := writer.New().Options
	wo.Format = ""
	wo.RenderOptions = &native.RenderOptions{Indent: 4}
	wo.SerializeOptions = &native.SerializeOptions{}
	wo.StoreOptions = &storage.StoreOptions{}
	ro := reader.New().Options
	ro.Format = ""
	ro.UnserializeOptions = &native.UnserializeOptions{}
	ro.RetrieveOptions = nil
	for _, k := range foKeys {
		wo.SetFormatOptions(k, nil)
		ro.SetFormatOptions(k, nil)
	}
}

func c18Property(t *rapid.T) {
	hx.Eval()
	resetSharedDefaults()
	fs, fu := &fakeSerializer{}, &fakeUnserializer{}
	writer.RegisterSerializer(fakeFormat, fs)
	reader.RegisterUnserializer(fakeFormat, fu)
	reader.RegisterUnserializer(formats.CDX15JSON, fu) // lets plain ParseStream (auto-detection) reach the fake
	defer func() {
		writer.UnregisterSerializer(fakeFormat)
		reader.UnregisterUnserializer(fakeFormat)
		reader.RegisterUnserializer(formats.CDX15JSON, drivers.NewCDX("1.5", formats.JSON))
	}()

	var writers []*writer.Writer
	var wmodels []*writerModel
	var readers []*reader.Reader
	var rmodels []*readerModel
	var hist []string
	logf := func(f string, a ...any) { hist = append(hist, fmt.Sprintf(f, a...)) }
	history := func() string { return "\n    " + strings.Join(hist, "\n    ") }
	// a per-call option set together with what the caller put into it (expectations come from that record, not from
	// re-reading the set: whether a call may complete the set it is given is not stated)
	type callOpt struct {
		o      *writer.Options
		fo     interface{}
		format formats.Format
		indent *int
	}
	var callOpts []callOpt
	reusedCallOptions := false
	optionedThenPlain := map[string]bool{}
	sawOptioned := map[string]bool{}
	doc := sbom.NewDocument()
	doc.Metadata.Id = "urn:uuid:c1800000-0000-4000-8000-000000000018"
	doc.NodeList.AddRootNode(&sbom.Node{Id: "a", Name: "a"})

	checkAll := func(after string) {
		for i, w := range writers {
			m := wmodels[i]
			o := w.Options
			if o == nil {
				t.Fatalf("after %s: writer %d has nil options%s", after, i, history())
			}
			if o.Format != m.format {
				t.Fatalf("after %s: writer %d format is %q, its own configuration says %q%s", after, i, o.Format, m.format, history())
			}
			if !m.nilOpts && ((o.RenderOptions == nil && m.indent != 4) || (o.RenderOptions != nil && o.RenderOptions.Indent != m.indent)) {
				t.Fatalf("after %s: writer %d render options are %+v, its own configuration says indent %d%s", after, i, o.RenderOptions, m.indent, history())
			}
			// (serialize / unserialize options are empty structs: two values cannot be told apart, nothing to assert)
			if !m.nilOpts && ((o.StoreOptions == nil && m.noClobber) || (o.StoreOptions != nil && o.StoreOptions.NoClobber != m.noClobber)) {
				t.Fatalf("after %s: writer %d store options are %+v, its own configuration says NoClobber=%v%s", after, i, o.StoreOptions, m.noClobber, history())
			}
			for _, k := range foKeys {
				if got := o.GetFormatOptions(k); got != m.fo[k] {
					t.Fatalf("after %s: writer %d format options[%s] = %v, its own configuration says %v%s", after, i, k, got, m.fo[k], history())
				}
			}
			if m.nilOpts {
				continue
			}
			// (which object sits in the Storage field — the backend itself or an adapter around it — is not asserted: the
			// store / retrieve actions count the calls that reach each recording backend)
			if w.Storage == nil {
				t.Fatalf("after %s: writer %d has no storage backend%s", after, i, history())
			}
		}
		// no two live instances share an options object (or a non-empty option group) they did not both receive
		for i := range writers {
			for j := i + 1; j < len(writers); j++ {
				a, b := writers[i].Options, writers[j].Options
				if a == b || (a.RenderOptions != nil && a.RenderOptions == b.RenderOptions) || (a.StoreOptions != nil && a.StoreOptions == b.StoreOptions) {
					t.Fatalf("after %s: writers %d and %d share an options object%s", after, i, j, history())
				}
			}
		}
		for i := range readers {
			for j := i + 1; j < len(readers); j++ {
				if readers[i].Options == readers[j].Options {
					t.Fatalf("after %s: readers %d and %d share an options object%s", after, i, j, history())
				}
			}
		}
		for i, r := range readers {
			m := rmodels[i]
			o := r.Options
			if o == nil {
				t.Fatalf("after %s: reader %d has nil options%s", after, i, history())
			}
			if o.Format != "" {
				t.Fatalf("after %s: reader %d has format %q although no constructor option sets one%s", after, i, o.Format, history())
			}
			if m.nilOpts {
				continue
			}
			// by value: whether an instance keeps the caller's object or a private copy is its choice
			if (m.retrieve == nil && o.RetrieveOptions != nil && o.RetrieveOptions.BackendOptions != nil) ||
				(m.retrieve != nil && (o.RetrieveOptions == nil || o.RetrieveOptions.BackendOptions != m.retrieve.BackendOptions)) {
				t.Fatalf("after %s: reader %d retrieve options are %+v, its own configuration says %+v%s", after, i, o.RetrieveOptions, m.retrieve, history())
			}
			if r.Storage == nil {
				t.Fatalf("after %s: reader %d has no storage backend%s", after, i, history())
			}
			for _, k := range foKeys {
				if got := o.GetFormatOptions(k); got != m.fo[k] {
					t.Fatalf("after %s: reader %d format options[%s] = %v, its own configuration says %v%s", after, i, k, got, m.fo[k], history())
				}
			}
		}
	}

	t.Repeat(map[string]func(*rapid.T){
		"newWriter": func(t *rapid.T) {
			if len(writers) >= 6 {
				t.Skip("enough writers")
			}
			m := &writerModel{indent: 4, fo: map[string]interface{}{}}
			var opts []writer.WriterOption
			var desc []string
			// a quarter of the constructions take no option at all (the documented defaults must come back)
			plain := rapid.IntRange(0, 3).Draw(t, "plain") == 0
			yes := func(label string) bool { return !plain && rapid.Bool().Draw(t, label) }
			if yes("format?") {
				m.format = rapid.SampledFrom([]formats.Format{fakeFormat, formats.CDX14JSON, formats.SPDX23JSON, formats.CDX15JSON}).Draw(t, "format")
				opts = append(opts, writer.WithFormat(m.format))
				desc = append(desc, "WithFormat("+string(m.format)+")")
			}
			if yes("render?") {
				m.indent = rapid.IntRange(0, 9).Draw(t, "indent")
				opts = append(opts, writer.WithRenderOptions(&native.RenderOptions{Indent: m.indent}))
				desc = append(desc, fmt.Sprintf("WithRenderOptions(indent %d)", m.indent))
			}
			if yes("serialize?") {
				m.serialize = &native.SerializeOptions{}
				opts = append(opts, writer.WithSerializeOptions(m.serialize))
				desc = append(desc, "WithSerializeOptions")
			}
			if yes("fo?") {
				k := rapid.SampledFrom(foKeys).Draw(t, "fokey")
				v := fmt.Sprintf("w%d-%s", len(writers), rapid.SampledFrom([]string{"x", "y"}).Draw(t, "foval"))
				m.fo[k] = v
				opts = append(opts, writer.WithFormatOptions(k, v))
				desc = append(desc, fmt.Sprintf("WithFormatOptions(%s,%s)", k, v))
			}
			if yes("store?") {
				m.noClobber = rapid.Bool().Draw(t, "noclobber")
				opts = append(opts, writer.WithStoreOptions(&storage.StoreOptions{NoClobber: m.noClobber}))
				desc = append(desc, fmt.Sprintf("WithStoreOptions(NoClobber=%v)", m.noClobber))
			}
			if yes("backend?") {
				m.store = &recStore{name: fmt.Sprintf("backend-of-writer-%d", len(writers))}
				opts = append(opts, writer.WithStoreRetriever(m.store))
				desc = append(desc, "WithStoreRetriever("+m.store.name+")")
			}
			if !plain && rapid.IntRange(0, 5).Draw(t, "nilopts") == 0 {
				opts = append(opts, writer.WithRenderOptions(nil), writer.WithSerializeOptions(nil), writer.WithStoreOptions(nil), writer.WithStoreRetriever(nil))
				desc = append(desc, "nil options")
				m.nilOpts = true
			}
			writers = append(writers, writer.New(opts...))
			wmodels = append(wmodels, m)
			logf("writer %d = writer.New(%s)", len(writers)-1, strings.Join(desc, ", "))
			if len(opts) > 0 {
				sawOptioned["writer"] = true
			} else if sawOptioned["writer"] {
				optionedThenPlain["writer"] = true
			}
			checkAll(hist[len(hist)-1])
		},
		"newReader": func(t *rapid.T) {
			if len(readers) >= 6 {
				t.Skip("enough readers")
			}
			m := &readerModel{fo: map[string]interface{}{}}
			var opts []reader.ReaderOption
			var desc []string
			plain := rapid.IntRange(0, 3).Draw(t, "plain") == 0
			yes := func(label string) bool { return !plain && rapid.Bool().Draw(t, label) }
			if yes("unserialize?") {
				m.unserialize = &native.UnserializeOptions{}
				opts = append(opts, reader.WithUnserializeOptions(m.unserialize))
				desc = append(desc, "WithUnserializeOptions")
			}
			if yes("retrieve?") {
				m.retrieve = &storage.RetrieveOptions{BackendOptions: fmt.Sprintf("retrieve-options-of-reader-%d", len(readers))}
				opts = append(opts, reader.WithRetrieveOptions(m.retrieve))
				desc = append(desc, "WithRetrieveOptions")
			}
			if yes("fo?") {
				k := rapid.SampledFrom(foKeys).Draw(t, "fokey")
				v := fmt.Sprintf("r%d-%s", len(readers), rapid.SampledFrom([]string{"x", "y"}).Draw(t, "foval"))
				m.fo[k] = v
				opts = append(opts, reader.WithFormatOptions(k, v))
				desc = append(desc, fmt.Sprintf("WithFormatOptions(%s,%s)", k, v))
			}
			if yes("backend?") {
				m.store = &recStore{name: fmt.Sprintf("backend-of-reader-%d", len(readers))}
				opts = append(opts, reader.WithStoreRetriever(m.store))
				desc = append(desc, "WithStoreRetriever("+m.store.name+")")
			}
			if yes("sniffer?") {
				m.sniffer = &recSniffer{name: fmt.Sprintf("sniffer-of-reader-%d", len(readers))}
				opts = append(opts, reader.WithSniffer(m.sniffer))
				desc = append(desc, "WithSniffer("+m.sniffer.name+")")
			}
			if !plain && rapid.IntRange(0, 5).Draw(t, "nilopts") == 0 {
				opts = append(opts, reader.WithUnserializeOptions(nil), reader.WithRetrieveOptions(nil), reader.WithStoreRetriever(nil), reader.WithSniffer(nil))
				desc = append(desc, "nil options")
				m.nilOpts = true
			}
			readers = append(readers, reader.New(opts...))
			rmodels = append(rmodels, m)
			logf("reader %d = reader.New(%s)", len(readers)-1, strings.Join(desc, ", "))
			if len(opts) > 0 {
				sawOptioned["reader"] = true
			} else if sawOptioned["reader"] {
				optionedThenPlain["reader"] = true
			}
			checkAll(hist[len(hist)-1])
		},
		"reconfigureWriter": func(t *rapid.T) {
			// configuring an existing instance in place must not leak into any other instance either
			if len(writers) == 0 {
				t.Skip("no writer")
			}
			i := rapid.IntRange(0, len(writers)-1).Draw(t, "w")
			m, o := wmodels[i], writers[i].Options
			if m.nilOpts || o == nil || o.RenderOptions == nil || o.StoreOptions == nil {
				t.Skip("instance built with nil-valued options: its option groups are not assumed")
			}
			switch rapid.SampledFrom([]string{"format", "indent", "noclobber", "formatOptions"}).Draw(t, "what") {
			case "format":
				m.format = rapid.SampledFrom([]formats.Format{"", fakeFormat, formats.CDX14JSON}).Draw(t, "format")
				o.Format = m.format
			case "indent":
				m.indent = rapid.IntRange(0, 9).Draw(t, "indent")
				o.RenderOptions.Indent = m.indent
			case "noclobber":
				m.noClobber = !m.noClobber
				o.StoreOptions.NoClobber = m.noClobber
			case "formatOptions":
				k := rapid.SampledFrom(foKeys).Draw(t, "fokey")
				v := fmt.Sprintf("w%d-reconf", i)
				m.fo[k] = v
				o.SetFormatOptions(k, v)
			}
			m.reconf = true
			logf("writer %d reconfigured in place -> format=%q indent=%d noclobber=%v", i, m.format, m.indent, m.noClobber)
			checkAll(hist[len(hist)-1])
		},
		"reconfigureReader": func(t *rapid.T) {
			if len(readers) == 0 {
				t.Skip("no reader")
			}
			i := rapid.IntRange(0, len(readers)-1).Draw(t, "r")
			m, o := rmodels[i], readers[i].Options
			k := rapid.SampledFrom(foKeys).Draw(t, "fokey")
			v := fmt.Sprintf("r%d-reconf", i)
			m.fo[k] = v
			o.SetFormatOptions(k, v)
			m.reconf = true
			logf("reader %d reconfigured in place: format options[%s]=%s", i, k, v)
			checkAll(hist[len(hist)-1])
		},
		"write": func(t *rapid.T) {
			if len(writers) == 0 {
				t.Skip("no writer")
			}
			i := rapid.IntRange(0, len(writers)-1).Draw(t, "w")
			m := wmodels[i]
			var buf bytes.Buffer
			calls := fs.calls
			err := writers[i].WriteStream(doc, nopCloser{&buf})
			logf("writer %d.WriteStream -> err=%v", i, err)
			switch {
			case m.reconf:
				hx.Class("call_on_instance_edited_after_construction")
			case m.format == "":
				if err == nil {
					t.Fatalf("writer %d has no format configured but WriteStream succeeded%s", i, history())
				}
			case m.format == fakeFormat:
				if err != nil || fs.calls != calls+1 {
					t.Fatalf("writer %d is configured for the fake format but the fake driver was not used (err=%v)%s", i, err, history())
				}
				if !m.nilOpts && (fs.renderOpts == nil || fs.renderOpts.Indent != m.indent) {
					t.Fatalf("writer %d: the driver received render options %+v, the writer's own say indent %d%s", i, fs.renderOpts, m.indent, history())
				}
				if fs.formatOptsS != m.fo[fakeSerKey] || fs.formatOptsR != m.fo[fakeSerKey] {
					t.Fatalf("writer %d: the driver received format options %v/%v, the writer's own are %v%s", i, fs.formatOptsS, fs.formatOptsR, m.fo[fakeSerKey], history())
				}
			default:
				if err != nil {
					t.Fatalf("writer %d (%s) failed: %v%s", i, m.format, err, history())
				}
				got, serr := (&formats.Sniffer{}).SniffReader(bytes.NewReader(buf.Bytes()))
				if serr != nil || got != m.format {
					t.Fatalf("writer %d is configured for %s but wrote %q (%v)%s", i, m.format, got, serr, history())
				}
			}
			checkAll(hist[len(hist)-1])
		},
		"writeWithOptions": func(t *rapid.T) {
			if len(writers) == 0 {
				t.Skip("no writer")
			}
			i := rapid.IntRange(0, len(writers)-1).Draw(t, "w")
			m := wmodels[i]
			// a per-call option set is either fresh or one used in an earlier call (callers keep such objects around)
			var co callOpt
			if len(callOpts) > 0 && rapid.Bool().Draw(t, "reuse") {
				co = callOpts[rapid.IntRange(0, len(callOpts)-1).Draw(t, "which")]
				reusedCallOptions = true
			} else {
				co.o = &writer.Options{}
				if rapid.Bool().Draw(t, "format?") {
					co.format = rapid.SampledFrom([]formats.Format{fakeFormat, formats.CDX14JSON, formats.SPDX23JSON}).Draw(t, "format")
					co.o.Format = co.format
				}
				if rapid.Bool().Draw(t, "render?") {
					ind := rapid.IntRange(0, 9).Draw(t, "indent")
					co.indent = &ind
					co.o.RenderOptions = &native.RenderOptions{Indent: ind}
				}
				if rapid.Bool().Draw(t, "serialize?") {
					co.o.SerializeOptions = &native.SerializeOptions{}
				}
				if rapid.Bool().Draw(t, "fo?") {
					co.fo = "call-" + rapid.SampledFrom([]string{"p", "q"}).Draw(t, "foval")
					co.o.SetFormatOptions(fakeSerKey, co.fo)
				}
				if len(callOpts) < 3 {
					callOpts = append(callOpts, co)
				}
			}
			o, callFO := co.o, co.fo
			used := co.format
			if used == "" {
				used = m.format
			}
			var buf bytes.Buffer
			calls := fs.calls
			hadRender, hadSerialize := o.RenderOptions != nil, o.SerializeOptions != nil
			err := writers[i].WriteStreamWithOptions(doc, nopCloser{&buf}, o)
			logf("writer %d.WriteStreamWithOptions(format=%q indent=%v fo=%v) -> err=%v", i, co.format, co.indent, callFO, err)
			// A call may complete the caller's option set. What it put there is then the caller's to edit: the caller
			// does so (and takes the group out again, so that the set is as before for its next use) - if the object belongs
			// to the library's defaults or to an instance, the invariant and the next option-less construction show it.
			if !hadRender && o.RenderOptions != nil {
				hx.Class("call_completed_the_callers_option_set")
				o.RenderOptions.Indent = 1 + (o.RenderOptions.Indent+3)%9
				o.RenderOptions = nil
				if d := writer.New().Options; d.RenderOptions == nil || d.RenderOptions.Indent != 4 {
					t.Fatalf("after the caller edited the render options a call had put into its own per-call set, a constructor called without options no longer yields the documented defaults (render options %+v)%s", d.RenderOptions, history())
				}
			}
			if !hadSerialize && o.SerializeOptions != nil {
				o.SerializeOptions = nil
			}
			switch {
			case m.reconf:
				hx.Class("call_on_instance_edited_after_construction")
			case used == "":
				if err == nil {
					t.Fatalf("neither the call nor writer %d names a format but the write succeeded%s", i, history())
				}
			case used == fakeFormat:
				if err != nil || fs.calls != calls+1 {
					t.Fatalf("the fake format was selected for this call but the fake driver was not used (err=%v)%s", err, history())
				}
				if co.indent != nil && (fs.renderOpts == nil || fs.renderOpts.Indent != *co.indent) {
					t.Fatalf("per-call render options (indent %d) did not reach the driver (got %+v)%s", *co.indent, fs.renderOpts, history())
				}
				// without per-call render options the library default or the instance's own reach the driver — never
				// what an earlier call on another instance left behind in a reused option set
				if co.indent == nil && fs.renderOpts != nil && fs.renderOpts.Indent != 4 && fs.renderOpts.Indent != m.indent {
					t.Fatalf("the call carried no render options, yet the driver received indent %d, which is neither the default nor writer %d's own (%d)%s", fs.renderOpts.Indent, i, m.indent, history())
				}
				// without per-call format options either nothing or the instance's own may reach the driver
				if (callFO != nil && (fs.formatOptsS != callFO || fs.formatOptsR != callFO)) ||
					(callFO == nil && fs.formatOptsS != nil && fs.formatOptsS != m.fo[fakeSerKey]) {
					t.Fatalf("per-call format options %v did not decide the driver's options for this call (driver got %v/%v)%s", callFO, fs.formatOptsS, fs.formatOptsR, history())
				}
			default:
				if err != nil {
					t.Fatalf("write with per-call options (%s) failed: %v%s", used, err, history())
				}
				got, serr := (&formats.Sniffer{}).SniffReader(bytes.NewReader(buf.Bytes()))
				if serr != nil || got != used {
					t.Fatalf("the call selected %s but %q was written (%v)%s", used, got, serr, history())
				}
			}
			checkAll(hist[len(hist)-1])
		},
		"parse": func(t *rapid.T) {
			if len(readers) == 0 {
				t.Skip("no reader")
			}
			i := rapid.IntRange(0, len(readers)-1).Draw(t, "r")
			m := rmodels[i]
			calls := fu.calls
			sniffs := map[*recSniffer]int{}
			for _, o := range rmodels {
				if o.sniffer != nil {
					sniffs[o.sniffer] = o.sniffer.calls
				}
			}
			_, err := readers[i].ParseStream(strings.NewReader(minimalCDX15))
			logf("reader %d.ParseStream -> err=%v", i, err)
			if m.nilOpts || m.reconf {
				// (a nil-valued sniffer option may select the library's own detection or none at all)
				hx.Class("parse_on_instance_with_unstated_configuration")
				checkAll(hist[len(hist)-1])
				return
			}
			if err != nil || fu.calls != calls+1 {
				t.Fatalf("reader %d: plain ParseStream did not reach the registered driver (err=%v)%s", i, err, history())
			}
			// detection goes through the reader's own sniffer, never through the one given to another reader
			for sn, n := range sniffs {
				if m.nilOpts {
					break // (a nil-valued sniffer option may select the library's own detection)
				}
				want := n
				if sn == m.sniffer {
					want++
				}
				if sn.calls != want {
					t.Fatalf("reader %d.ParseStream: %s saw %d detections, expected %d (each reader detects with the sniffer its own constructor was given)%s", i, sn.name, sn.calls-n, want-n, history())
				}
			}
			hx.ClassIf(m.sniffer != nil, "parse_through_instance_sniffer")
			if fu.formatOpts != m.fo[fakeUnserKey] {
				t.Fatalf("reader %d: the driver received format options %v, the reader's own are %v%s", i, fu.formatOpts, m.fo[fakeUnserKey], history())
			}
			checkAll(hist[len(hist)-1])
		},
		"parseWithOptions": func(t *rapid.T) {
			if len(readers) == 0 {
				t.Skip("no reader")
			}
			i := rapid.IntRange(0, len(readers)-1).Draw(t, "r")
			o := &reader.Options{UnserializeOptions: &native.UnserializeOptions{}}
			if rapid.Bool().Draw(t, "format?") {
				o.Format = fakeFormat
			}
			var callFO interface{}
			if rapid.Bool().Draw(t, "fo?") {
				callFO = "call-" + rapid.SampledFrom([]string{"p", "q"}).Draw(t, "foval")
				o.SetFormatOptions(fakeUnserKey, callFO)
			}
			calls := fu.calls
			_, err := readers[i].ParseStreamWithOptions(strings.NewReader(minimalCDX15), o)
			logf("reader %d.ParseStreamWithOptions(format=%q fo=%v) -> err=%v", i, o.Format, callFO, err)
			if (rmodels[i].nilOpts && o.Format == "") || rmodels[i].reconf {
				hx.Class("parse_on_instance_with_unstated_configuration")
				checkAll(hist[len(hist)-1])
				return
			}
			if err != nil || fu.calls != calls+1 {
				t.Fatalf("reader %d: ParseStreamWithOptions did not reach the registered driver (err=%v)%s", i, err, history())
			}
			if (callFO != nil && fu.formatOpts != callFO) || (callFO == nil && fu.formatOpts != nil && fu.formatOpts != rmodels[i].fo[fakeUnserKey]) {
				t.Fatalf("per-call format options %v did not decide the driver's options for this call (driver got %v)%s", callFO, fu.formatOpts, history())
			}
			checkAll(hist[len(hist)-1])
		},
		"store": func(t *rapid.T) {
			// only writers with a recording backend (the filesystem backend would write to the working directory)
			var cands []int
			for i, m := range wmodels {
				if m.store != nil && !m.nilOpts && !m.reconf {
					cands = append(cands, i)
				}
			}
			if len(cands) == 0 {
				t.Skip("no writer with a recording backend")
			}
			i := cands[rapid.IntRange(0, len(cands)-1).Draw(t, "w")]
			m := wmodels[i]
			before := map[*recStore]int{}
			for _, o := range wmodels {
				if o.store != nil {
					before[o.store] = o.store.stores
				}
			}
			withOpts := rapid.Bool().Draw(t, "withOptions")
			var callSO *storage.StoreOptions
			var err error
			if withOpts {
				callSO = &storage.StoreOptions{NoClobber: rapid.Bool().Draw(t, "callNoClobber"), BackendOptions: fmt.Sprintf("store-options-of-call-%d", len(hist))}
				err = writers[i].StoreWithOptions(doc, &writer.Options{StoreOptions: callSO})
			} else {
				err = writers[i].Store(doc)
			}
			logf("writer %d.Store(withOptions=%v) -> err=%v", i, withOpts, err)
			// (whether a store succeeds is not this property's business: a writer may refuse on its own, e.g. enforce
			// NoClobber against what its backend already holds; how often it calls its own backend is not stated either)
			for st, n := range before {
				if st != m.store && st.stores != n {
					t.Fatalf("writer %d stored a document: backend %s, which belongs to another writer, saw %d calls (each writer uses the backend its own constructor was given)%s", i, st.name, st.stores-n, history())
				}
			}
			if err == nil && m.store.stores == before[m.store] {
				t.Fatalf("writer %d reported a successful store but its own backend %s saw no call%s", i, m.store.name, history())
			}
			if err != nil || m.store.stores == before[m.store] {
				hx.Class("store_refused_before_the_backend")
				checkAll(hist[len(hist)-1])
				return
			}
			if withOpts {
				// by value: the backend may be handed a copy
				if got := m.store.lastStore; got == nil || got.NoClobber != callSO.NoClobber || got.BackendOptions != callSO.BackendOptions {
					t.Fatalf("writer %d.StoreWithOptions: the backend received %+v, not the store options given to this call (%+v)%s", i, got, callSO, history())
				}
			} else if got := m.store.lastStore; got != nil && got.NoClobber != m.noClobber && got.NoClobber {
				// without per-call options the backend receives the library defaults or the instance's own options
				t.Fatalf("writer %d.Store: the backend received NoClobber=%v, which is neither the library default nor this writer's own (%v)%s", i, got.NoClobber, m.noClobber, history())
			}
			hx.Class("store_through_instance_backend")
			checkAll(hist[len(hist)-1])
		},
		"retrieve": func(t *rapid.T) {
			var cands []int
			for i, m := range rmodels {
				if m.store != nil && !m.nilOpts && !m.reconf {
					cands = append(cands, i)
				}
			}
			if len(cands) == 0 {
				t.Skip("no reader with a recording backend")
			}
			i := cands[rapid.IntRange(0, len(cands)-1).Draw(t, "r")]
			m := rmodels[i]
			before := map[*recStore]int{}
			for _, o := range rmodels {
				if o.store != nil {
					before[o.store] = o.store.retrieves
				}
			}
			withOpts := rapid.Bool().Draw(t, "withOptions")
			var callRO *storage.RetrieveOptions
			var d *sbom.Document
			var err error
			if withOpts {
				callRO = &storage.RetrieveOptions{BackendOptions: fmt.Sprintf("retrieve-options-of-call-%d", len(hist))}
				d, err = readers[i].RetrieveWithOptions("urn:x", &reader.Options{RetrieveOptions: callRO})
			} else {
				d, err = readers[i].Retrieve("urn:x")
			}
			logf("reader %d.Retrieve(withOptions=%v) -> err=%v", i, withOpts, err)
			if err == nil && d.GetMetadata().GetId() != "urn:x" {
				t.Fatalf("reader %d: retrieve of \"urn:x\" returned document %q%s", i, d.GetMetadata().GetId(), history())
			}
			for st, n := range before {
				if st != m.store && st.retrieves != n {
					t.Fatalf("reader %d retrieved a document: backend %s, which belongs to another reader, saw %d calls%s", i, st.name, st.retrieves-n, history())
				}
			}
			if err != nil || m.store.retrieves == before[m.store] {
				// (refused, or served without asking the backend again: not this property's business)
				hx.Class("retrieve_without_backend_call")
				checkAll(hist[len(hist)-1])
				return
			}
			if got := m.store.lastRetr; withOpts && (got == nil || got.BackendOptions != callRO.BackendOptions) {
				t.Fatalf("reader %d.RetrieveWithOptions: the backend received %+v, not the retrieve options given to this call%s", i, got, history())
			}
			// without per-call options: the library default (nothing, or an empty set) or this reader's own
			if got := m.store.lastRetr; !withOpts && got != nil && got.BackendOptions != nil && (m.retrieve == nil || got.BackendOptions != m.retrieve.BackendOptions) {
				t.Fatalf("reader %d.Retrieve: the backend received retrieve options %+v that are neither the library default nor this reader's own%s", i, got, history())
			}
			hx.Class("retrieve_through_instance_backend")
			checkAll(hist[len(hist)-1])
		},
		"": func(t *rapid.T) { checkAll("a step") },
	})
	hx.ClassIf(reusedCallOptions, "per-call_option_set_reused")
	hx.ClassIf(optionedThenPlain["writer"], "optioned_writer_then_option-less_writer")
	hx.ClassIf(optionedThenPlain["reader"], "optioned_reader_then_option-less_reader")
	if optionedThenPlain["writer"] || optionedThenPlain["reader"] {
		if hx.NonTrivial(hx.Digest(strings.Join(hist, "|"))) {
			hx.Sample(func() any { return append([]string{}, hist...) })
		}
	}
}

func TestC18(t *testing.T) { rapid.Check(t, c18Property) }
