package props

import (
	"bytes"
	"encoding/json"
	"errors"
	"fmt"
	"io"
	"os"
	"path/filepath"
	"strings"
	"sync"
	"testing"

	"github.com/protobom/protobom/pkg/formats"
	"github.com/protobom/protobom/pkg/reader"
	"pgregory.net/rapid"
	"verif/harness/hx"
)

// trackedReader records the offset and can make the k-th Seek fail.
type trackedReader struct {
	r        *bytes.Reader
	seeks    int
	failSeek int // 1-based index of the Seek call that fails; 0 = never
}

func (t *trackedReader) Read(p []byte) (int, error) { return t.r.Read(p) }
func (t *trackedReader) Seek(off int64, whence int) (int64, error) {
	t.seeks++
	if t.failSeek != 0 && t.seeks == t.failSeek {
		return 0, errors.New("injected seek failure")
	}
	return t.r.Seek(off, whence)
}
func (t *trackedReader) pos() int64 { p, _ := t.r.Seek(0, io.SeekCurrent); return p }

type sniffResult struct {
	format formats.Format
	err    error
	pan    any
	pos    int64
}

func sniffTracked(data []byte, failSeek int) sniffResult {
	tr := &trackedReader{r: bytes.NewReader(data), failSeek: failSeek}
	var res sniffResult
	func() {
		if failSeek != 0 {
			// the sniffer prints a warning to standard output when the rewind fails; keep the log readable
			old := os.Stdout
			if dn, err := os.OpenFile(os.DevNull, os.O_WRONLY, 0); err == nil {
				os.Stdout = dn
				defer func() { os.Stdout = old; dn.Close() }()
			}
		}
		defer func() { res.pan = recover() }()
		res.format, res.err = (&formats.Sniffer{}).SniffReader(tr)
	}()
	res.pos = tr.pos()
	return res
}

// declaredFormat decodes the top-level declaration independently (first JSON value of the stream; object keys
// are matched case-insensitively with the last match winning, as Go's decoder does).
func declaredFormat(data []byte) (formats.Format, bool) {
	f, ok, _ := declaredFormatClean(data)
	return f, ok
}

// declaredFormatClean additionally reports whether the declaration is clean: every declaration member occurs
// at most once and is a string, and the stream holds nothing but the object.
func declaredFormatClean(data []byte) (formats.Format, bool, bool) {
	f, ok := declaredFormat0(data)
	v, err := hx.ParseJV(data)
	if err != nil || v.Kind != 'o' {
		return f, ok, false
	}
	count := map[string]int{}
	for _, m := range v.Members {
		for _, k := range []string{"bomformat", "specversion", "spdxversion"} {
			if strings.EqualFold(m.Key, k) {
				count[k]++
				if m.Val.Kind != 's' {
					return f, ok, false
				}
			}
		}
	}
	for _, c := range count {
		if c > 1 {
			return f, ok, false
		}
	}
	return f, ok, true
}

func declaredFormat0(data []byte) (formats.Format, bool) {
	dec := json.NewDecoder(bytes.NewReader(data))
	var top map[string]json.RawMessage
	if err := dec.Decode(&top); err != nil {
		return "", false
	}
	// re-walk in textual order for "last wins": decode again token-wise
	v, err := hx.ParseJV(firstJSONValue(data))
	if err != nil || v.Kind != 'o' {
		return "", false
	}
	get := func(name string) (string, bool, bool) { // value, present, isString
		val, present, isStr := "", false, false
		for _, m := range v.Members {
			if strings.EqualFold(m.Key, name) {
				if m.Val.Kind == 'z' {
					continue // null leaves the field untouched
				}
				present = true
				isStr = m.Val.Kind == 's'
				val = m.Val.Str
			}
		}
		return val, present, isStr
	}
	bf, bfp, bfs := get("bomFormat")
	sv, svp, svs := get("specVersion")
	xv, xvp, xvs := get("spdxVersion")
	if (bfp && !bfs) || (svp && !svs) || (xvp && !xvs) {
		return "", false // a mistyped declaration is not a declaration
	}
	if strings.EqualFold(bf, "cyclonedx") {
		switch sv {
		case "1.3":
			return formats.CDX13JSON, true
		case "1.4":
			return formats.CDX14JSON, true
		case "1.5":
			return formats.CDX15JSON, true
		}
		return "", false
	}
	switch xv {
	case "SPDX-2.2":
		return formats.SPDX22JSON, true
	case "SPDX-2.3":
		return formats.SPDX23JSON, true
	}
	return "", false
}

// firstJSONValue returns the bytes of the first JSON value of the stream.
func firstJSONValue(data []byte) []byte {
	dec := json.NewDecoder(bytes.NewReader(data))
	var raw json.RawMessage
	if err := dec.Decode(&raw); err != nil {
		return nil
	}
	return raw
}

func checkAccessors(f formats.Format) error {
	ty, ver, enc := f.Type(), f.Version(), f.Encoding()
	switch {
	case strings.Contains(string(f), "cyclonedx"):
		if ty != "cyclonedx" || enc != "json" {
			return fmt.Errorf("accessors of %q: type %q encoding %q", f, ty, enc)
		}
	case strings.Contains(string(f), "spdx"):
		if ty != "spdx" || (enc != "json" && enc != "text") {
			return fmt.Errorf("accessors of %q: type %q encoding %q", f, ty, enc)
		}
	default:
		return fmt.Errorf("format %q is of no known type", f)
	}
	// (the statement names the type, version and encoding accessors; Major / Minor / URI are not part of it)
	if !strings.Contains(string(f), "version="+ver) {
		return fmt.Errorf("accessors of %q: version %q", f, ver)
	}
	return nil
}

// commonSniffChecks: totality, xor, rewind, agreement with the declaration.
// declarationAdmits: the necessary condition for reporting the JSON format f — the first JSON value of the input is
// an object whose top-level members (names compared without regard to case, every occurrence of a repeated member
// considered) declare that type and that version.
func declarationAdmits(data []byte, f formats.Format) bool {
	v, err := hx.ParseJV(firstJSONValue(data))
	if err != nil || v.Kind != 'o' {
		return false
	}
	has := func(name string, match func(string) bool) bool {
		for _, m := range v.Members {
			if strings.EqualFold(m.Key, name) && m.Val.Kind == 's' && match(m.Val.Str) {
				return true
			}
		}
		return false
	}
	switch {
	case strings.Contains(string(f), "cyclonedx"):
		return has("bomFormat", func(s string) bool { return strings.EqualFold(s, "CycloneDX") }) &&
			has("specVersion", func(s string) bool { return s == f.Version() })
	case strings.Contains(string(f), "spdx"):
		return has("spdxVersion", func(s string) bool { return strings.EqualFold(s, "SPDX-"+f.Version()) })
	}
	return false
}

func commonSniffChecks(t fataler, data []byte, what string) formats.Format {
	res := sniffTracked(data, 0)
	if res.pan != nil {
		t.Fatalf("SniffReader panicked on %s: %v\n%q", what, res.pan, trunc(string(data), 600))
	}
	if (res.err == nil) == (res.format == "") {
		t.Fatalf("SniffReader returned format %q with error %v on %s\n%q", res.format, res.err, what, trunc(string(data), 600))
	}
	if res.pos != 0 {
		t.Fatalf("SniffReader left the stream at offset %d (err=%v) on %s\n%q", res.pos, res.err, what, trunc(string(data), 600))
	}
	decl, ok, clean := declaredFormatClean(data)
	if res.err == nil {
		if err := checkAccessors(res.format); err != nil {
			t.Fatalf("%v", err)
		}
		if res.format.Encoding() == "json" {
			if !declarationAdmits(data, res.format) {
				t.Fatalf("SniffReader reports %q but the top-level declaration does not say so (a strict reading gives %q, present=%v) on %s\n%q", res.format, decl, ok, what, trunc(string(data), 800))
			}
		} else {
			// a tag-value format can only be declared by a tag-value document: input whose first JSON value
			// decodes (object, array or scalar) has no tag-value declaration at its top level
			if fv := firstJSONValue(data); fv != nil {
				t.Fatalf("SniffReader reports the tag-value format %q for input that is JSON (its top level declares no such thing)\n%q", res.format, trunc(string(data), 800))
			}
			// necessary condition for genuine tag-value input
			s := string(data)
			if !strings.Contains(s, "SPDXVersion:") || !strings.Contains(s, "SPDX-"+res.format.Version()) {
				t.Fatalf("SniffReader reports %q but the input has no SPDXVersion tag with that version\n%q", res.format, trunc(s, 800))
			}
		}
	} else if ok && clean {
		// detection is *required* to succeed on the writer's output and its re-encodings (TestC06Positive); how lenient
		// it is towards other spellings of a declaration (letter case, duplicates) is not stated: counted, not asserted
		hx.Class("declared_under_a_lenient_reading_but_not_detected")
	}
	// injected seek failures (a stream that cannot be positioned is outside the statement): no panic
	for k := 1; k <= 3; k++ {
		if r := sniffTracked(data, k); r.pan != nil {
			t.Fatalf("SniffReader panicked when Seek #%d fails: %v", k, r.pan)
		}
	}
	return res.format
}

var c06Tmp struct {
	once sync.Once
	dir  string
}

// c06TempDir is a per-process scratch directory below VERIF_TMP (the driver removes it).
func c06TempDir() string {
	c06Tmp.once.Do(func() {
		base := os.Getenv("VERIF_TMP")
		if base == "" {
			base = os.TempDir()
		}
		d, err := os.MkdirTemp(base, "c06-")
		if err != nil {
			panic("HARNESS-SELFTEST " + err.Error())
		}
		c06Tmp.dir = d
	})
	return c06Tmp.dir
}

func c06PositiveProperty(t *rapid.T) {
	hx.Eval()
	f := rapid.SampledFrom([]formats.Format{formats.SPDX23JSON, formats.CDX13JSON, formats.CDX14JSON, formats.CDX15JSON}).Draw(t, "format")
	indent := rapid.IntRange(0, 8).Draw(t, "indent")
	var out []byte
	var err error
	if f == formats.SPDX23JSON {
		out, err = writeDoc(genSPDXDoc(t), f, indent)
	} else {
		c := genCDXDoc(t)
		out, err = writeDoc(c.Doc, f, indent)
	}
	if err != nil {
		// the statement is about documents the writer can emit: a refused document is outside it
		hx.Class("writer_refused_the_generated_document")
		return
	}
	hx.Class("format:" + string(f))
	if got := commonSniffChecks(t, out, "writer output"); got != f {
		t.Fatalf("detection on the writer's %s output (indent %d) returned %q", f, indent, got)
	}
	v, perr := hx.ParseJV(out)
	if perr != nil {
		t.Fatalf("HARNESS-SELFTEST writer output is not JSON: %v", perr)
	}
	want, _ := parseAs(out, f)
	for i := 0; i < 3; i++ {
		variant := v.Clone()
		moved := rapid.Bool().Draw(t, "movelast")
		if moved {
			// move the declaration members to the end
			var decl, rest []hx.JMember
			for _, m := range variant.Members {
				if m.Key == "bomFormat" || m.Key == "specVersion" || m.Key == "spdxVersion" {
					decl = append(decl, m)
				} else {
					rest = append(rest, m)
				}
			}
			variant.Members = append(rest, decl...)
		}
		enc, reordered := reencode(t, variant, fmt.Sprintf("enc%d", i))
		if got := commonSniffChecks(t, enc, "re-encoded writer output"); got != f {
			t.Fatalf("detection on a re-encoding of the writer's %s output returned %q\n%s", f, got, trunc(string(enc), 800))
		}
		// the following parse sees the whole document
		tr := &trackedReader{r: bytes.NewReader(enc)}
		d, err := reader.New().ParseStream(tr)
		if err != nil {
			t.Fatalf("ParseStream after detection failed on a re-encoding: %v", err)
		}
		if want != nil && (len(d.NodeList.Nodes) != len(want.NodeList.Nodes) || len(d.NodeList.Edges) != len(want.NodeList.Edges)) {
			t.Fatalf("ParseStream after detection did not see the whole document: %d nodes / %d edges, want %d / %d", len(d.NodeList.Nodes), len(d.NodeList.Edges), len(want.NodeList.Nodes), len(want.NodeList.Edges))
		}
		// the file entry points: detection and parsing from a path agree with the stream variants
		if i == 0 {
			path := filepath.Join(c06TempDir(), "doc.json")
			if werr := os.WriteFile(path, enc, 0o600); werr != nil {
				t.Fatalf("HARNESS-SELFTEST cannot write %s: %v", path, werr)
			}
			got, ferr := (&formats.Sniffer{}).SniffFile(path)
			if ferr != nil || got != f {
				t.Fatalf("SniffFile on a re-encoding of the writer's %s output returned %q, %v (SniffReader returns the format)", f, got, ferr)
			}
			fd, ferr := reader.New().ParseFile(path)
			if ferr != nil {
				t.Fatalf("ParseFile failed on a document ParseStream accepts: %v", ferr)
			}
			// "the following parse sees the whole document": the same graph through either entry point
			if graphKey(fd) != graphKey(d) {
				t.Fatalf("ParseFile and ParseStream see different graphs in the same bytes (first difference near %q)", firstDiff(graphKey(d), graphKey(fd)))
			}
			hx.Class("file_entry_points")
		}
		if !bytes.Equal(enc, out) && (moved || reordered) {
			if hx.NonTrivial(hx.Digest(string(enc))) {
				hx.Sample(func() any { return map[string]string{"format": string(f), "encoding_head": trunc(string(enc), 300)} })
			}
		}
	}
}

func TestC06Positive(t *testing.T) { rapid.Check(t, c06PositiveProperty) }

// ---- negative / totality ----------------------------------------------------------------------------------

var declKeys = []string{"bomFormat", "specVersion", "spdxVersion", "BOMFORMAT", "specversion", "SpdxVersion", "bomformat", "x", "name", "metadata"}
var declVals = []*hx.JV{hx.JString("CycloneDX"), hx.JString("cyclonedx"), hx.JString("CYCLONEDX"), hx.JString("CycloneDX "), hx.JString("1.5"), hx.JString("1.4"), hx.JString("1.3"), hx.JString("1.2"),
	hx.JString("1.6"), hx.JString("1.4 "), hx.JString(" 1.5"), hx.JString("SPDX-2.3"), hx.JString("SPDX-2.2"), hx.JString("spdx-2.3"), hx.JString("SPDX-3.0"), hx.JString("SPDX-2.3 "), hx.JString(""),
	hx.JNumber("1.5"), hx.JNumber("2"), hx.JBool(true), hx.JNull(), hx.JArray(hx.JString("1.5")), hx.JObject(hx.M("specVersion", hx.JString("1.5"))), hx.JString("SPDXVersion: SPDX-2.3")}

func genNegative(t *rapid.T) ([]byte, string) {
	kind := rapid.SampledFrom([]string{"object", "object", "object", "nested", "array", "bytes", "tagvalue", "trailing", "scalar"}).Draw(t, "kind")
	obj := func(l string) *hx.JV {
		o := hx.JObject()
		for i := rapid.IntRange(0, 5).Draw(t, l+".n"); i > 0; i-- {
			o.Members = append(o.Members, hx.M(rapid.SampledFrom(declKeys).Draw(t, l+".k"), rapid.SampledFrom(declVals).Draw(t, l+".v").Clone()))
		}
		return o
	}
	enc := func(v *hx.JV) []byte { b, _ := reencode(t, v, "neg"); return b }
	switch kind {
	case "object":
		return enc(obj("o")), kind
	case "nested":
		return enc(hx.JObject(hx.M(rapid.SampledFrom([]string{"metadata", "x", "bomFormat"}).Draw(t, "outer"), obj("in")), hx.M("y", hx.JNumber("1")))), kind
	case "array":
		return enc(hx.JArray(obj("a0"), obj("a1"))), kind
	case "bytes":
		return rapid.SliceOfN(rapid.Byte(), 0, 120).Draw(t, "b"), kind
	case "tagvalue":
		lines := rapid.SliceOfN(rapid.SampledFrom([]string{"SPDXVersion: SPDX-2.3", "SPDXVersion: SPDX-2.2", "SPDXVersion: SPDX-3.0", "SPDXVersion: SPDX-2.1", "spdxVersion: \"SPDX-2.3\"", "spdxVersion: 'SPDX-2.2'", "SPDXVersion:", "DataLicense: CC0-1.0", "\"SPDX-2.3\"", "'SPDX-2.2'", "SPDX-2.3", "{", "}", "", "bomFormat: CycloneDX"}), 0, 8).Draw(t, "lines")
		return []byte(strings.Join(lines, rapid.SampledFrom([]string{"\n", "\r\n"}).Draw(t, "eol"))), kind
	case "trailing":
		return append(enc(obj("t")), []byte(rapid.SampledFrom([]string{" garbage", "\n{\"bomFormat\":\"CycloneDX\",\"specVersion\":\"1.5\"}", "]", "\x00"}).Draw(t, "tail"))...), kind
	default:
		return []byte(rapid.SampledFrom([]string{`"CycloneDX"`, `1.5`, `null`, `true`, ``, ` `, `"SPDXVersion: SPDX-2.3"`}).Draw(t, "scalar")), kind
	}
}

// sniffResetInput: a well-formed tag-value header. Detecting it first puts the line sniffer's scratch state in a
// known condition, so that a case is a pure function of its own sequence of inputs even if detection (wrongly)
// keeps state between calls.
const sniffResetInput = "SPDXVersion: SPDX-2.3\nDataLicense: CC0-1.0\n"

func c06NegativeProperty(t *rapid.T) {
	(&formats.Sniffer{}).SniffReader(strings.NewReader(sniffResetInput)) //nolint:errcheck
	// a short history of detections: the verdict on each input must not depend on what was sniffed before
	if rapid.IntRange(0, 3).Draw(t, "statefulPair") == 0 {
		// a non-JSON input that leaves the line sniffer with half a declaration (tag seen, no supported version),
		// followed by a non-JSON input that has a quoted version but no tag: neither declares a format
		hx.Class("kind:tag_without_version_then_version_without_tag")
		poison := rapid.SampledFrom([]string{"SPDXVersion: SPDX-2.1\nDataLicense: CC0-1.0\n", "SPDXVersion:\n", "x\nSPDXVersion: SPDX-3.0\ny\n", "# SPDXVersion: none\n"}).Draw(t, "poison")
		victim := rapid.SampledFrom([]string{"spdxVersion: 'SPDX-2.2'\n", "a\n\"SPDX-2.3\" b\n", "version = \"SPDX-2.3\"\n", "- 'SPDX-2.3'\n"}).Draw(t, "victim")
		for _, in := range []string{poison, victim, poison, victim} {
			hx.Eval()
			commonSniffChecks(t, []byte(in), "tag-value fragment")
		}
		hx.NonTrivial(hx.Digest("pair", poison, victim))
		return
	}
	n := rapid.IntRange(1, 4).Draw(t, "history")
	for i := 0; i < n; i++ {
		c06NegativeOne(t)
	}
}

func c06NegativeOne(t *rapid.T) {
	hx.Eval()
	data, kind := genNegative(t)
	hx.Class("kind:" + kind)
	got := commonSniffChecks(t, data, "generated "+kind)
	hx.ClassIf(got != "", "detected:"+string(got))
	hx.ClassIf(got == "", "rejected")
	if v, err := hx.ParseJV(firstJSONValue(data)); err == nil && v.Kind == 'o' {
		hx.Class("valid_json_object")
		if hx.NonTrivial(hx.Digest(string(data))) {
			hx.Sample(func() any { return map[string]string{"input": trunc(string(data), 300), "detected": string(got)} })
		}
	}
}

func TestC06Negative(t *testing.T) { rapid.Check(t, c06NegativeProperty) }

// TestC06Accessors: accessor algebra on every format constant.
func TestC06Accessors(t *testing.T) {
	for _, f := range allFormats {
		if f == spdx3Format {
			continue // (a literal of this harness, not a constant of the library: nothing defines its accessors)
		}
		hx.Eval()
		if err := checkAccessors(f); err != nil {
			hx.RecordFailure("C06Accessors", err.Error(), string(f))
			t.Fatal(err)
		}
		hx.NonTrivial(hx.Digest("fmt", f))
	}
	hx.Sample(func() any { return "accessor algebra of all format constants" })
}

// TestC06Files: the path-based entry points on paths that are no document: error returns, never a panic, and never
// a format together with an error.
func TestC06Files(t *testing.T) {
	dir := c06TempDir()
	empty := filepath.Join(dir, "empty.json")
	_ = os.WriteFile(empty, nil, 0o600)
	garbage := filepath.Join(dir, "garbage.bin")
	_ = os.WriteFile(garbage, []byte{0xff, 0xfe, 0x00, '{', '"'}, 0o600)
	near := filepath.Join(dir, "near.json")
	_ = os.WriteFile(near, []byte(`{"bomFormat":"CycloneDX","specVersion":"9.9"}`), 0o600)
	for _, p := range []string{filepath.Join(dir, "does-not-exist.json"), dir, empty, garbage, near, "", string([]byte{0})} {
		hx.Eval()
		hx.NonTrivial(hx.Digest("c06file", p))
		func() {
			defer func() {
				if r := recover(); r != nil {
					hx.RecordFailure("C06Files", fmt.Sprintf("path entry point panicked on %q: %v", p, r), map[string]any{"path": p})
					t.Fatalf("path entry point panicked on %q: %v", p, r)
				}
			}()
			f, err := (&formats.Sniffer{}).SniffFile(p)
			// a format xor an error; a format only when the file's top-level declaration says so (the near-miss file
			// declares CycloneDX 9.9: a detection that reports exactly that is within "only when declared")
			declared := false
			if data, rerr := os.ReadFile(p); rerr == nil && err == nil && f != "" {
				declared = declarationAdmits(data, f)
			}
			if (err == nil) == (f == "") || (err == nil && !declared) {
				hx.RecordFailure("C06Files", fmt.Sprintf("SniffFile(%q) = %q, %v", p, f, err), map[string]any{"path": p})
				t.Fatalf("SniffFile(%q) returned format %q and error %v (a format xor an error; this path declares no such format)", p, f, err)
			}
			d, err := reader.New().ParseFile(p)
			if p == near {
				// (what parsing makes of a declared but unknown version is not this test's subject)
				err, d = errors.New("skipped"), nil
			}
			if err == nil || d != nil {
				hx.RecordFailure("C06Files", fmt.Sprintf("ParseFile(%q) = %v, %v", p, d != nil, err), map[string]any{"path": p})
				t.Fatalf("ParseFile(%q) returned document=%v error=%v (this path holds no SBOM)", p, d != nil, err)
			}
			d, err = reader.New().ParseFileWithOptions(p, &reader.Options{Format: formats.CDX15JSON})
			if (err == nil) == (d == nil) {
				hx.RecordFailure("C06Files", fmt.Sprintf("ParseFileWithOptions(%q) = %v, %v", p, d != nil, err), map[string]any{"path": p})
				t.Fatalf("ParseFileWithOptions(%q) returned document=%v error=%v (a document xor an error)", p, d != nil, err)
			}
		}()
	}
}
