package props

import (
	"bytes"
	"fmt"
	"io"
	"strings"
	"sync"
	"sync/atomic"
	"testing"

	"github.com/anishathalye/porcupine"
	"github.com/protobom/protobom/pkg/formats"
	"github.com/protobom/protobom/pkg/native"
	sdrivers "github.com/protobom/protobom/pkg/native/serializers"
	drivers "github.com/protobom/protobom/pkg/native/unserializers"
	"github.com/protobom/protobom/pkg/reader"
	"github.com/protobom/protobom/pkg/sbom"
	"github.com/protobom/protobom/pkg/writer"
	"pgregory.net/rapid"
	"verif/harness/hx"
)

// registry keys: private formats only (what registering or removing a *built-in* format means beyond the plain map
// — restoring the default, falling back to a neighbouring version — is the library's business)
var c17Keys = []formats.Format{"application/x-verif-k1", "application/x-verif-k2", "application/x-verif-k3", "application/x-verif-k4", "application/x-verif-k5"}

// marker drivers: which driver a lookup returned is told by what the returned driver *does* (the registry may hand out
// a wrapper around the registered object)
type markU struct{ id int }

func (m *markU) Unserialize(io.Reader, *native.UnserializeOptions, interface{}) (*sbom.Document, error) {
	d := sbom.NewDocument()
	d.Metadata.Name = fmt.Sprintf("marker-%d", m.id)
	return d, nil
}

type markS struct{ id int }

func (m *markS) Serialize(*sbom.Document, *native.SerializeOptions, interface{}) (interface{}, error) {
	return m.id, nil
}
func (m *markS) Render(interface{}, io.Writer, *native.RenderOptions, interface{}) error { return nil }

func whichU(u native.Unserializer) int {
	if u == nil {
		return -1
	}
	d, err := u.Unserialize(strings.NewReader("{}"), &native.UnserializeOptions{}, nil)
	var id int
	if err != nil || d == nil || d.Metadata == nil {
		return -1
	}
	if _, serr := fmt.Sscanf(d.Metadata.Name, "marker-%d", &id); serr != nil {
		return -1
	}
	return id
}

func whichS(s native.Serializer) int {
	if s == nil {
		return -1
	}
	v, err := s.Serialize(sbom.NewDocument(), &native.SerializeOptions{}, nil)
	id, ok := v.(int)
	if err != nil || !ok {
		return -1
	}
	return id
}

type c17Op struct {
	Kind  string // newReader newWriter regU unregU getU regS unregS getS sniffJSON sniffTV parse write
	Key   int
	Val   int
	Input int
}

func (o c17Op) String() string {
	switch o.Kind {
	case "regU", "regS":
		return fmt.Sprintf("%s(k%d,v%d)", o.Kind, o.Key, o.Val)
	case "unregU", "unregS", "getU", "getS":
		return fmt.Sprintf("%s(k%d)", o.Kind, o.Key)
	case "sniffJSON", "sniffTV", "parse", "write":
		return fmt.Sprintf("%s(#%d)", o.Kind, o.Input)
	}
	return o.Kind
}

type regInput struct {
	Op  string // reg unreg get
	Key int
	Val int
}

// registry model: key -> value id (0 = absent); partitioned by key
var registryModel = porcupine.Model{
	Partition: func(history []porcupine.Operation) [][]porcupine.Operation {
		m := map[int][]porcupine.Operation{}
		for _, op := range history {
			k := op.Input.(regInput).Key
			m[k] = append(m[k], op)
		}
		var out [][]porcupine.Operation
		for k := 0; k < len(c17Keys); k++ {
			if len(m[k]) > 0 {
				out = append(out, m[k])
			}
		}
		return out
	},
	Init: func() interface{} { return 0 },
	Step: func(state, input, output interface{}) (bool, interface{}) {
		in := input.(regInput)
		switch in.Op {
		case "reg":
			return true, in.Val
		case "unreg":
			return true, 0
		default:
			return output.(int) == state.(int), state
		}
	},
	DescribeOperation: func(input, output interface{}) string { return fmt.Sprintf("%+v -> %v", input, output) },
}

var c17SniffJSON = []string{minimalCDX15, `{"spdxVersion":"SPDX-2.3","SPDXID":"SPDXRef-DOCUMENT"}`, `{"bomFormat":"CycloneDX","specVersion":"1.4"}`, `{"x":1}`}
var filler = strings.Repeat("PackageName: filler\nPackageComment: nothing to see\n", 150)

// tag-value inputs; several keep detection state across many lines, so that a concurrent detection has a wide
// window in which leaked or lost scratch state changes the answer
var c17SniffTV = []string{"SPDXVersion: SPDX-2.3\nDataLicense: CC0-1.0\n", "x\ny\nSPDXVersion: SPDX-2.2\n", "SPDXVersion:\n\"SPDX-2.3\"\n", "nothing here\nat all\n", "a\nb\nc\nSPDXVersion: SPDX-2.3",
	"SPDXVersion:\n" + filler + "\"SPDX-2.3\"\n",  // tag first, quoted version 300 lines later: SPDX 2.3 tag-value
	filler + "spdxVersion: 'SPDX-2.2'\n" + filler, // quoted version without a tag (YAML-like): no format
	"SPDXVersion: SPDX-2.1\n" + filler,            // unsupported version: no format, leaves partial state behind
	filler + "SPDXVersion: SPDX-2.2\n"}

func c17Docs() []*sbom.Document {
	var out []*sbom.Document
	for i := 0; i < 3; i++ {
		d := sbom.NewDocument()
		d.Metadata.Id = fmt.Sprintf("urn:uuid:c1700000-0000-4000-8000-00000000000%d", i)
		d.Metadata.Version = "1"
		d.NodeList.AddRootNode(&sbom.Node{Id: "root", Name: "root"})
		for j := 0; j <= i; j++ {
			n := &sbom.Node{Id: fmt.Sprintf("n%d", j), Name: fmt.Sprintf("node %d", j), Version: "1", Hashes: map[int32]string{3: "00ff00ff00ff00ff00ff00ff00ff00ff00ff00ff00ff00ff00ff00ff00ff00ff"}}
			d.NodeList.AddNode(n)
			d.NodeList.Edges = append(d.NodeList.Edges, &sbom.Edge{From: "root", Type: sbom.Edge_contains, To: []string{n.Id}})
		}
		out = append(out, d)
	}
	return out
}

var c17WriteFormats = []formats.Format{formats.CDX14JSON, formats.CDX15JSON, formats.SPDX23JSON}

func sniffStr(s string) string {
	f, err := (&formats.Sniffer{}).SniffReader(strings.NewReader(s))
	return fmt.Sprintf("%s/%v", f, err != nil)
}

func c17Property(t *rapid.T) {
	hx.Eval()
	// sequential expectations
	docs := c17Docs()
	var parseInputs [][]byte
	var parseWant []string
	var writeWant []string
	for i, d := range docs {
		f := c17WriteFormats[i%len(c17WriteFormats)]
		out, err := writeDoc(d, f, 2)
		if err != nil {
			t.Fatalf("HARNESS-SELFTEST sequential write failed: %v", err)
		}
		parseInputs = append(parseInputs, out)
		pd, err := readDoc(out)
		if err != nil {
			t.Fatalf("HARNESS-SELFTEST sequential parse failed: %v", err)
		}
		// results are compared as graphs: a write may carry a fresh document identifier / namespace / time per call,
		// in a sequential order just as well
		writeWant = append(writeWant, graphKey(pd))
		parseWant = append(parseWant, graphKey(pd))
	}
	seqWriterFormat, seqWriterIndent := map[int]formats.Format{}, map[int]int{}
	for g := 0; g < 16; g++ {
		sw := writer.New(writer.WithFormat(c17WriteFormats[g%len(c17WriteFormats)]), writer.WithRenderOptions(&native.RenderOptions{Indent: g}))
		seqWriterFormat[g] = sw.Options.Format
		if sw.Options.RenderOptions != nil {
			seqWriterIndent[g] = sw.Options.RenderOptions.Indent
		}
	}
	var sniffJSONWant, sniffTVWant []string
	for _, s := range c17SniffJSON {
		sniffJSONWant = append(sniffJSONWant, sniffStr(s))
	}
	for _, s := range c17SniffTV {
		sniffTVWant = append(sniffTVWant, sniffStr(s))
	}
	// driver values for the registries
	uvals := []native.Unserializer{nil, &markU{1}, &markU{2}, &markU{3}}
	svals := []native.Serializer{nil, &markS{1}, &markS{2}, &markS{3}}
	uid := func(u native.Unserializer, err error) int {
		if err != nil {
			return 0
		}
		return whichU(u)
	}
	sid := func(s native.Serializer, err error) int {
		if err != nil {
			return 0
		}
		return whichS(s)
	}
	// start from empty registries for the keys used
	for _, k := range c17Keys {
		reader.UnregisterUnserializer(k)
		writer.UnregisterSerializer(k)
	}
	defer func() {
		for _, k := range c17Keys {
			reader.UnregisterUnserializer(k)
			writer.UnregisterSerializer(k)
		}
		reader.RegisterUnserializer(formats.CDX10JSON, drivers.NewCDX("1.0", formats.JSON))
		reader.RegisterUnserializer(formats.CDX11JSON, drivers.NewCDX("1.1", formats.JSON))
		writer.RegisterSerializer(formats.CDX10JSON, sdrivers.NewCDX("1.0", formats.JSON))
		writer.RegisterSerializer(formats.CDX11JSON, sdrivers.NewCDX("1.1", formats.JSON))
	}()

	ng := rapid.IntRange(2, 8).Draw(t, "goroutines")
	kinds := []string{"newReader", "newWriter", "regU", "unregU", "getU", "getU", "regS", "unregS", "getS", "getS", "sniffJSON", "sniffTV", "sniffTV", "parse", "write"}
	progs := make([][]c17Op, ng)
	keyUsers := map[string]map[int]bool{}
	tvUsers := map[int]bool{}
	var lines []string
	for g := 0; g < ng; g++ {
		for i := rapid.IntRange(3, 12).Draw(t, "nops"); i > 0; i-- {
			op := c17Op{Kind: rapid.SampledFrom(kinds).Draw(t, "kind")}
			switch op.Kind {
			case "regU", "regS":
				op.Key, op.Val = rapid.IntRange(0, len(c17Keys)-1).Draw(t, "key"), rapid.IntRange(1, 3).Draw(t, "val")
			case "unregU", "getU", "unregS", "getS":
				op.Key = rapid.IntRange(0, len(c17Keys)-1).Draw(t, "key")
			case "sniffJSON":
				op.Input = rapid.IntRange(0, len(c17SniffJSON)-1).Draw(t, "in")
			case "sniffTV":
				op.Input = rapid.IntRange(0, len(c17SniffTV)-1).Draw(t, "in")
				tvUsers[g] = true
			case "parse", "write":
				op.Input = rapid.IntRange(0, len(docs)-1).Draw(t, "in")
			}
			if strings.HasSuffix(op.Kind, "U") || strings.HasSuffix(op.Kind, "S") {
				k := fmt.Sprintf("%s%d", op.Kind[len(op.Kind)-1:], op.Key)
				if keyUsers[k] == nil {
					keyUsers[k] = map[int]bool{}
				}
				keyUsers[k][g] = true
			}
			progs[g] = append(progs[g], op)
		}
		var ds []string
		for _, o := range progs[g] {
			ds = append(ds, o.String())
		}
		lines = append(lines, fmt.Sprintf("g%d: %s", g, strings.Join(ds, " ; ")))
	}
	program := strings.Join(lines, "\n")
	hx.Journal([]byte(program))
	sharedKey := false
	for _, us := range keyUsers {
		sharedKey = sharedKey || len(us) >= 2
	}
	hx.ClassIf(sharedKey, "two_goroutines_on_one_registry_key")
	hx.ClassIf(len(tvUsers) >= 2, "two_goroutines_sniff_tag-value")
	if sharedKey || len(tvUsers) >= 2 {
		if hx.NonTrivial(hx.Digest(program)) {
			hx.Sample(func() any { return program })
		}
	}

	var clock int64
	var mu sync.Mutex
	var uhist, shist []porcupine.Operation
	var failures []string
	fail := func(f string, a ...any) { mu.Lock(); failures = append(failures, fmt.Sprintf(f, a...)); mu.Unlock() }
	start := make(chan struct{})
	var wg sync.WaitGroup
	for g := 0; g < ng; g++ {
		wg.Add(1)
		go func(g int) {
			defer wg.Done()
			localDocs := c17Docs() // goroutine-local documents
			<-start
			for _, op := range progs[g] {
				switch op.Kind {
				case "newReader":
					r := reader.New(reader.WithFormatOptions(fmt.Sprintf("g%d", g), g))
					if r.Options.GetFormatOptions(fmt.Sprintf("g%d", g)) != g {
						fail("g%d: reader.New lost its own format options", g)
					}
					for o := 0; o < ng; o++ {
						if o != g && r.Options.GetFormatOptions(fmt.Sprintf("g%d", o)) != nil {
							fail("g%d: reader.New returned a reader holding the format options given to the reader of g%d", g, o)
						}
					}
				case "newWriter":
					f := c17WriteFormats[g%len(c17WriteFormats)]
					w := writer.New(writer.WithFormat(f), writer.WithRenderOptions(&native.RenderOptions{Indent: g}), writer.WithFormatOptions(fmt.Sprintf("g%d", g), g))
					// what the same constructor call yields when nothing else runs (computed before the goroutines started)
					if w.Options.Format != seqWriterFormat[g] || w.Options.RenderOptions == nil || w.Options.RenderOptions.Indent != seqWriterIndent[g] {
						fail("g%d: writer.New returned a writer configured with (%s, %+v), sequentially the same call gives (%s, indent %d)", g, w.Options.Format, w.Options.RenderOptions, seqWriterFormat[g], seqWriterIndent[g])
					}
					if w.Options.GetFormatOptions(fmt.Sprintf("g%d", g)) != g {
						fail("g%d: writer.New lost its own format options", g)
					}
					for o := 0; o < ng; o++ {
						if o != g && w.Options.GetFormatOptions(fmt.Sprintf("g%d", o)) != nil {
							fail("g%d: writer.New returned a writer holding the format options given to the writer of g%d", g, o)
						}
					}
				case "regU", "unregU", "getU", "regS", "unregS", "getS":
					in := regInput{Key: op.Key, Val: op.Val}
					call := atomic.AddInt64(&clock, 1)
					out := 0
					switch op.Kind {
					case "regU":
						in.Op = "reg"
						reader.RegisterUnserializer(c17Keys[op.Key], uvals[op.Val])
					case "unregU":
						in.Op = "unreg"
						reader.UnregisterUnserializer(c17Keys[op.Key])
					case "getU":
						in.Op = "get"
						out = uid(reader.GetFormatUnserializer(c17Keys[op.Key]))
					case "regS":
						in.Op = "reg"
						writer.RegisterSerializer(c17Keys[op.Key], svals[op.Val])
					case "unregS":
						in.Op = "unreg"
						writer.UnregisterSerializer(c17Keys[op.Key])
					case "getS":
						in.Op = "get"
						out = sid(writer.GetFormatSerializer(c17Keys[op.Key]))
					}
					ret := atomic.AddInt64(&clock, 1)
					o := porcupine.Operation{ClientId: g, Input: in, Call: call, Output: out, Return: ret}
					mu.Lock()
					if strings.HasSuffix(op.Kind, "U") {
						uhist = append(uhist, o)
					} else {
						shist = append(shist, o)
					}
					mu.Unlock()
				case "sniffJSON":
					if got := sniffStr(c17SniffJSON[op.Input]); got != sniffJSONWant[op.Input] {
						fail("g%d: detection on JSON input #%d returned %s, sequentially it returns %s", g, op.Input, got, sniffJSONWant[op.Input])
					}
				case "sniffTV":
					if got := sniffStr(c17SniffTV[op.Input]); got != sniffTVWant[op.Input] {
						fail("g%d: detection on tag-value input #%d returned %s, sequentially it returns %s", g, op.Input, got, sniffTVWant[op.Input])
					}
				case "parse":
					d, err := reader.New().ParseStream(bytes.NewReader(parseInputs[op.Input]))
					if err != nil {
						fail("g%d: parse #%d failed: %v", g, op.Input, err)
						continue
					}
					if graphKey(d) != parseWant[op.Input] {
						fail("g%d: parse #%d differs from the sequential result", g, op.Input)
					}
				case "write":
					var buf bytes.Buffer
					f := c17WriteFormats[op.Input%len(c17WriteFormats)]
					if err := writer.New().WriteStreamWithOptions(localDocs[op.Input], nopCloser{&buf}, &writer.Options{Format: f, RenderOptions: &native.RenderOptions{Indent: 2}}); err != nil {
						fail("g%d: write #%d failed: %v", g, op.Input, err)
						continue
					}
					if back, rerr := readDoc(buf.Bytes()); rerr != nil || graphKey(back) != writeWant[op.Input] {
						fail("g%d: write #%d differs from the sequential result (read back: %v)", g, op.Input, rerr)
					}
				}
			}
		}(g)
	}
	close(start)
	wg.Wait()
	if len(failures) > 0 {
		t.Fatalf("%s\n program:\n%s", strings.Join(failures, "\n"), program)
	}
	for name, h := range map[string][]porcupine.Operation{"unserializer registry": uhist, "serializer registry": shist} {
		for _, o := range h {
			if o.Output.(int) < 0 {
				t.Fatalf("%s lookup returned a driver nobody registered\n program:\n%s", name, program)
			}
		}
		if !porcupine.CheckOperations(registryModel, h) {
			t.Fatalf("%s history is not linearizable: %s\n program:\n%s", name, describeHistory(h), program)
		}
	}
}

func describeHistory(h []porcupine.Operation) string {
	var b strings.Builder
	for _, o := range h {
		fmt.Fprintf(&b, "[c%d %d..%d %+v->%v] ", o.ClientId, o.Call, o.Return, o.Input, o.Output)
	}
	return b.String()
}

func TestC17(t *testing.T) { rapid.Check(t, c17Property) }

// TestC17SniffStress: 8 goroutines x 150 detections over the tag-value inputs (which carry state across hundreds of
// lines), every result compared with the sequential one. Fixed program; run in the -race binary.
func TestC17SniffStress(t *testing.T) {
	var want []string
	for _, s := range c17SniffTV {
		want = append(want, sniffStr(s))
	}
	var wg sync.WaitGroup
	var mu sync.Mutex
	var failures []string
	start := make(chan struct{})
	for g := 0; g < 8; g++ {
		wg.Add(1)
		go func(g int) {
			defer wg.Done()
			<-start
			for i := 0; i < 150; i++ {
				k := (g*7 + i*3) % len(c17SniffTV)
				if got := sniffStr(c17SniffTV[k]); got != want[k] {
					mu.Lock()
					if len(failures) < 5 {
						failures = append(failures, fmt.Sprintf("goroutine %d: detection on tag-value input #%d returned %s, sequentially it returns %s", g, k, got, want[k]))
					}
					mu.Unlock()
				}
				hx.Eval()
			}
		}(g)
	}
	close(start)
	wg.Wait()
	hx.NonTrivial(hx.Digest("sniff-stress"))
	hx.NonTrivial(hx.Digest("sniff-stress-2"))
	hx.Sample(func() any { return "8 goroutines x 150 detections over 9 tag-value inputs with cross-line state" })
	if len(failures) > 0 {
		hx.RecordFailure("C17SniffStress", strings.Join(failures, "; "), map[string]any{"program": "8 goroutines x 150 detections over c17SniffTV"})
		t.Fatalf("%s", strings.Join(failures, "\n"))
	}
}

// TestC17RegistryStress: every goroutine owns one private registry key and is its only writer, so each of its
// lookups must return its own latest registration (or "absent" after its own removal) whatever the other
// goroutines do to their keys; a lost or resurrected registration is visible immediately. Fixed program.
func TestC17RegistryStress(t *testing.T) {
	const workers, rounds = 8, 1500
	uvals := []native.Unserializer{&markU{0}, &markU{1}, &markU{2}}
	svals := []native.Serializer{&markS{0}, &markS{1}, &markS{2}}
	var wg sync.WaitGroup
	var mu sync.Mutex
	var failures []string
	fail := func(f string, a ...any) {
		mu.Lock()
		if len(failures) < 5 {
			failures = append(failures, fmt.Sprintf(f, a...))
		}
		mu.Unlock()
	}
	start := make(chan struct{})
	for g := 0; g < workers; g++ {
		wg.Add(1)
		go func(g int) {
			defer wg.Done()
			key := formats.Format(fmt.Sprintf("application/x-verif-stress-%d", g))
			defer reader.UnregisterUnserializer(key)
			defer writer.UnregisterSerializer(key)
			<-start
			for i := 0; i < rounds; i++ {
				v := (g + i) % 3
				reader.RegisterUnserializer(key, uvals[v])
				writer.RegisterSerializer(key, svals[v])
				if u, err := reader.GetFormatUnserializer(key); err != nil || whichU(u) != v {
					fail("goroutine %d round %d: the unserializer it just registered under its private key is not returned (err=%v)", g, i, err)
				}
				if s, err := writer.GetFormatSerializer(key); err != nil || whichS(s) != v {
					fail("goroutine %d round %d: the serializer it just registered under its private key is not returned (err=%v)", g, i, err)
				}
				if i%2 == 0 {
					reader.UnregisterUnserializer(key)
					writer.UnregisterSerializer(key)
					if _, err := reader.GetFormatUnserializer(key); err == nil {
						fail("goroutine %d round %d: the unserializer it just removed is still registered", g, i)
					}
					if _, err := writer.GetFormatSerializer(key); err == nil {
						fail("goroutine %d round %d: the serializer it just removed is still registered", g, i)
					}
				}
				hx.Eval()
			}
		}(g)
	}
	close(start)
	wg.Wait()
	// the built-in drivers must have survived the storm
	for _, f := range []formats.Format{formats.CDX14JSON, formats.CDX15JSON, formats.SPDX23JSON} {
		if _, err := reader.GetFormatUnserializer(f); err != nil {
			fail("built-in unserializer %s was lost: %v", f, err)
		}
		if _, err := writer.GetFormatSerializer(f); err != nil {
			fail("built-in serializer %s was lost: %v", f, err)
		}
	}
	hx.NonTrivial(hx.Digest("registry-stress"))
	hx.NonTrivial(hx.Digest("registry-stress-2"))
	hx.Sample(func() any {
		return "8 goroutines x 1500 rounds of register / lookup / unregister / lookup, each on its own private key"
	})
	if len(failures) > 0 {
		hx.RecordFailure("C17RegistryStress", strings.Join(failures, "; "), map[string]any{"program": "8 goroutines x 1500 rounds on private keys"})
		t.Fatalf("%s", strings.Join(failures, "\n"))
	}
}
