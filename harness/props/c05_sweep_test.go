package props

import (
	"fmt"
	"strings"
	"testing"
	"unicode/utf8"

	"github.com/protobom/protobom/pkg/sbom"

	"verif/harness/hx"
)

// TestC05IdentifierSweep: bounded-exhaustive companion of TestC05Identifier. Random text almost never draws the
// handful of code points a character-class slip lets through (case folding pulls U+017F and U+212A into [a-z]),
// so every Unicode code point, every single byte and every invalid two-byte sequence head is used as a seed, alone
// and embedded between safe characters. Oracle: the result is non-empty, over [A-Za-z0-9.-], carries the reserved
// prefix and is reproducible. Sharded over VERIF_SHARDS.
func TestC05IdentifierSweep(t *testing.T) {
	shard, shards := hx.Shard()
	check := func(kind string, seeds ...string) bool {
		// without a usable seed the identifier is a fresh UUID by design: only then is it not reproducible
		usable := false
		for _, sd := range seeds {
			if sd != "auto" && sd != "node" && utf8.ValidString(sd) && strings.ContainsAny(sd, "abcdefghijklmnopqrstuvwxyzABCDEFGHIJKLMNOPQRSTUVWXYZ0123456789") {
				usable = true
			}
		}
		hx.Eval()
		id := sbom.NewNodeIdentifier(seeds...)
		bad := ""
		switch {
		case id == "":
			bad = "empty"
		case !safeIDRe.MatchString(id):
			bad = "leaves the identifier-safe alphabet"
		case usable:
			if id2 := sbom.NewNodeIdentifier(seeds...); id2 != id {
				bad = fmt.Sprintf("is not reproducible (then %q)", id2)
			}
		}
		if bad != "" {
			hx.RecordFailure("C05IdentifierSweep", fmt.Sprintf("NewNodeIdentifier(%q) = %q %s", seeds, id, bad),
				map[string]any{"seeds": seeds, "kind": kind})
			return false
		}
		return true
	}
	failures := 0
	n := 0
	for r := rune(0); r <= utf8.MaxRune && failures < 5; r++ {
		if int(r)%shards != shard {
			continue
		}
		if r >= 0xD800 && r <= 0xDFFF {
			continue // surrogates are not encodable; covered by the byte sweep below
		}
		s := string(r)
		n++
		if !check("rune", s) {
			failures++
		}
		if !check("rune_embedded", "lib"+s+"x-1.0") {
			failures++
		}
		hx.ClassIf(r > 0x7f, "sweep:non_ascii_code_point") // swept values are not counted as non-trivial cases
	}
	if shard == 0 {
		for b := 0; b < 256 && failures < 5; b++ {
			s := string([]byte{byte(b)})
			if !check("byte", s) {
				failures++
			}
			if !check("byte_embedded", "a"+s+"b") {
				failures++
			}
			for _, c := range []byte{0x00, 0x41, 0x80, 0xbf, 0xff} {
				if !check("byte_pair", string([]byte{byte(b), c})) {
					failures++
				}
			}
			if b >= 0x80 {
				hx.Class("invalid_utf8_byte")
			}
		}
		// several seeds, flags in every position
		for _, seeds := range [][]string{{"auto", "ſ"}, {"node", "K", "auto"}, {"ſ", "node"}, {"", "K"}, {"auto"}, {"node"}, {}, {""}} {
			if !check("multi", seeds...) {
				failures++
			}
		}
	}
	hx.Class("code_points_swept")
	hx.Info("c05_identifier_sweep", map[string]any{"shard": shard, "shards": shards, "code_points": n})
	if shards == 1 {
		hx.Note("C05IdentifierSweep is exhaustive over Unicode scalar values (alone and embedded), single bytes and 5 second bytes per byte")
	}
	if failures > 0 {
		t.Fatalf("%d identifier seeds violate the identifier contract (see recorded failures)", failures)
	}
}
