package props

import (
	"bytes"
	"encoding/base64"
	"encoding/json"
	"fmt"
	"os"
	"path/filepath"
	"runtime/debug"
	"sort"
	"strings"
	"sync"
	"testing"
	"time"

	"github.com/protobom/protobom/pkg/formats"
	"github.com/protobom/protobom/pkg/native"
	"github.com/protobom/protobom/pkg/sbom"
	"github.com/protobom/protobom/pkg/writer"
	"google.golang.org/protobuf/proto"
	"pgregory.net/rapid"
	"verif/harness/hx"
)

// wildDoc is a Document value plus the shape operations that protobuf decoding cannot produce (nil pointers
// inside repeated fields etc.), kept as a list so that the case can be journalled and replayed.
type wildDoc struct {
	Base []byte   `json:"doc_b64"` // proto wire bytes of the base document
	Ops  []string `json:"ops"`
}

func (w wildDoc) build() *sbom.Document {
	doc := &sbom.Document{}
	_ = proto.Unmarshal(w.Base, doc)
	for _, op := range w.Ops {
		applyWildOp(doc, op)
	}
	return doc
}

var wildOps = []string{"nil_metadata", "empty_metadata", "nil_nodelist", "empty_nodelist", "nil_node_elem", "nil_edge_elem", "nil_doctype_elem", "nil_person_elem",
	"nil_extref_elem", "nil_tool_elem", "doctype_no_name", "doctype_only_type", "doctype_runtime", "doctype_bad_enum", "doctype_other_no_name", "dup_ids", "empty_id", "no_roots", "many_roots",
	"dangling_root", "dangling_edge", "self_contain", "contain_cycle", "island_cycle", "diamonds", "bad_node_type", "bad_edge_type", "nonnumeric_version", "one_root", "fresh_unmarshal"}

func applyWildOp(doc *sbom.Document, op string) {
	nl := doc.NodeList
	switch op {
	case "nil_metadata":
		doc.Metadata = nil
	case "empty_metadata":
		doc.Metadata = &sbom.Metadata{}
	case "nil_nodelist":
		doc.NodeList = nil
	case "empty_nodelist":
		doc.NodeList = &sbom.NodeList{}
	case "fresh_unmarshal":
		*doc = sbom.Document{}
		_ = proto.Unmarshal(nil, doc)
	}
	if doc.Metadata != nil {
		md := doc.Metadata
		switch op {
		case "nil_doctype_elem":
			md.DocumentTypes = append(md.DocumentTypes, nil)
		case "nil_person_elem":
			md.Authors = append(md.Authors, nil)
		case "nil_tool_elem":
			md.Tools = append(md.Tools, nil)
		case "doctype_no_name":
			md.DocumentTypes = append(md.DocumentTypes, &sbom.DocumentType{})
		case "doctype_only_type":
			md.DocumentTypes = append(md.DocumentTypes, &sbom.DocumentType{Type: sbom.DocumentType_BUILD.Enum()})
		case "doctype_runtime":
			md.DocumentTypes = append(md.DocumentTypes, &sbom.DocumentType{Type: sbom.DocumentType_RUNTIME.Enum()})
		case "doctype_bad_enum":
			md.DocumentTypes = append(md.DocumentTypes, &sbom.DocumentType{Type: sbom.DocumentType_SBOMType(99).Enum()})
		case "doctype_other_no_name":
			md.DocumentTypes = append(md.DocumentTypes, &sbom.DocumentType{Type: sbom.DocumentType_OTHER.Enum()})
		case "nonnumeric_version":
			md.Version = "v1.x"
		}
	}
	if nl == nil || doc.NodeList == nil {
		return
	}
	ids := []string{}
	for _, n := range nl.Nodes {
		if n != nil {
			ids = append(ids, n.Id)
		}
	}
	switch op {
	case "nil_node_elem":
		nl.Nodes = append(nl.Nodes, nil)
	case "nil_edge_elem":
		nl.Edges = append(nl.Edges, nil)
	case "nil_extref_elem":
		for _, n := range nl.Nodes {
			if n != nil {
				n.ExternalReferences = append(n.ExternalReferences, nil)
				n.Suppliers = append(n.Suppliers, nil)
				n.Originators = append([]*sbom.Person{nil}, n.Originators...)
			}
		}
	case "dup_ids":
		if len(nl.Nodes) > 0 && nl.Nodes[0] != nil {
			nl.Nodes = append(nl.Nodes, &sbom.Node{Id: nl.Nodes[0].Id, Name: "duplicate"})
		}
	case "empty_id":
		nl.Nodes = append(nl.Nodes, &sbom.Node{Id: "", Name: "noid"}, &sbom.Node{Id: "", Name: "noid2"})
		nl.Edges = append(nl.Edges, &sbom.Edge{From: "", Type: sbom.Edge_contains, To: []string{""}})
	case "no_roots":
		nl.RootElements = nil
	case "one_root":
		if len(ids) > 0 {
			nl.RootElements = []string{ids[0]}
		}
	case "many_roots":
		nl.RootElements = append(append([]string{}, ids...), ids...)
	case "dangling_root":
		nl.RootElements = []string{"no-such-node"}
	case "dangling_edge":
		nl.Edges = append(nl.Edges, &sbom.Edge{From: "no-such-node", Type: sbom.Edge_contains, To: []string{"neither"}}, &sbom.Edge{From: first(ids), Type: sbom.Edge_dependsOn, To: []string{"neither"}})
	case "self_contain":
		if len(ids) > 0 {
			nl.Edges = append(nl.Edges, &sbom.Edge{From: ids[len(ids)-1], Type: sbom.Edge_contains, To: []string{ids[len(ids)-1]}})
		}
	case "contain_cycle":
		if len(ids) > 1 {
			for i := range ids {
				nl.Edges = append(nl.Edges, &sbom.Edge{From: ids[i], Type: sbom.Edge_contains, To: []string{ids[(i+1)%len(ids)]}})
			}
		}
	case "island_cycle":
		// a containment cycle among nodes that nothing outside the cycle contains (so no walk from the top reaches it):
		// which member ends up on top is a choice the serializer must make the same way every time
		k := 2 + len(ids)%3
		for i := 0; i < k; i++ {
			nl.Nodes = append(nl.Nodes, &sbom.Node{Id: fmt.Sprintf("isle-%d", i), Name: fmt.Sprintf("isle %d", i), Version: "1"})
		}
		for i := 0; i < k; i++ {
			nl.Edges = append(nl.Edges, &sbom.Edge{From: fmt.Sprintf("isle-%d", i), Type: sbom.Edge_contains, To: []string{fmt.Sprintf("isle-%d", (i+1)%k)}})
		}
	case "diamonds":
		// a chain of 25 diamonds: exponential when shared sub-trees are duplicated
		prev := "dia-0"
		nl.Nodes = append(nl.Nodes, &sbom.Node{Id: prev, Name: prev})
		for i := 1; i <= 25; i++ {
			l, r, j := fmt.Sprintf("dia-%d-l", i), fmt.Sprintf("dia-%d-r", i), fmt.Sprintf("dia-%d", i)
			nl.Nodes = append(nl.Nodes, &sbom.Node{Id: l, Name: l}, &sbom.Node{Id: r, Name: r}, &sbom.Node{Id: j, Name: j})
			nl.Edges = append(nl.Edges, &sbom.Edge{From: prev, Type: sbom.Edge_contains, To: []string{l, r}}, &sbom.Edge{From: l, Type: sbom.Edge_contains, To: []string{j}}, &sbom.Edge{From: r, Type: sbom.Edge_contains, To: []string{j}})
			prev = j
		}
		nl.RootElements = []string{"dia-0"}
	case "bad_node_type":
		for _, n := range nl.Nodes {
			if n != nil {
				n.Type = sbom.Node_NodeType(7)
				n.PrimaryPurpose = append(n.PrimaryPurpose, sbom.Purpose(-1), sbom.Purpose(99))
				if n.Hashes == nil {
					n.Hashes = map[int32]string{}
				}
				n.Hashes[-3] = "x"
				n.Hashes[99] = "y"
			}
		}
	case "bad_edge_type":
		nl.Edges = append(nl.Edges, &sbom.Edge{From: first(ids), Type: sbom.Edge_Type(99), To: []string{first(ids)}}, &sbom.Edge{From: first(ids), Type: sbom.Edge_Type(-1), To: ids})
	}
}

func first(ids []string) string {
	if len(ids) == 0 {
		return ""
	}
	return ids[0]
}

func genWildDoc(t *rapid.T, label string) wildDoc {
	doc := &sbom.Document{}
	hx.Populate(t, label, doc.ProtoReflect(), hx.PopOpts{Depth: 4, MaxRep: 4, FillProb: 60, BadEnums: true, KeyRange: 5,
		Text: rapid.OneOf(rapid.SampledFrom([]string{"a", "b", "c", "d", "1", "7", "x1", ""}), hx.TextPlain())})
	if doc.NodeList != nil {
		// small id pool so that edges and roots often refer to nodes (and sometimes dangle)
		for _, n := range doc.NodeList.Nodes {
			n.Id = rapid.SampledFrom([]string{"a", "b", "c", "d", "a", "b", "protobom-auto--000000001", "protobom--x", "protobom-", "protobom", "protobom-node-auto--y", "protobom-x"}).Draw(t, label+".id")
		}
	}
	if rapid.Bool().Draw(t, label+".serializable") {
		// half of the documents are made acceptable to every serializer (one existing root, closed edges, complete
		// document types) so that the determinism clause is exercised on successful writes, attributes stay wild
		if doc.Metadata == nil {
			doc.Metadata = &sbom.Metadata{}
		}
		var dts []*sbom.DocumentType
		for _, dt := range doc.Metadata.DocumentTypes {
			if dt.Type != nil && (*dt.Type < 0 || *dt.Type > 8 || *dt.Type == sbom.DocumentType_RUNTIME) {
				continue
			}
			if dt.Name == nil {
				n := "custom"
				dt.Name = &n
			}
			dts = append(dts, dt)
		}
		doc.Metadata.DocumentTypes = dts
		if doc.NodeList == nil {
			doc.NodeList = &sbom.NodeList{}
		}
		if len(doc.NodeList.Nodes) == 0 {
			doc.NodeList.Nodes = []*sbom.Node{{Id: "a", Name: "root", Identifiers: map[int32]string{2: "cpe:/a:b", 3: "cpe:2.3:a:b", 1: "pkg:npm/a@1"}}}
		}
		ids := map[string]bool{}
		for _, n := range doc.NodeList.Nodes {
			ids[n.Id] = true
		}
		var es []*sbom.Edge
		for _, e := range doc.NodeList.Edges {
			if !ids[e.From] {
				continue
			}
			var tos []string
			for _, to := range e.To {
				if ids[to] {
					tos = append(tos, to)
				}
			}
			e.To = tos
			es = append(es, e)
		}
		doc.NodeList.Edges = es
		doc.NodeList.RootElements = []string{doc.NodeList.Nodes[0].Id}
	}
	base, err := proto.Marshal(doc)
	if err != nil {
		base = nil
	}
	w := wildDoc{Base: base}
	if rapid.Bool().Draw(t, label+".plain") {
		return w
	}
	for i := rapid.IntRange(0, 3).Draw(t, label+".nops"); i > 0; i-- {
		w.Ops = append(w.Ops, rapid.SampledFrom(wildOps).Draw(t, label+".op"))
	}
	return w
}

type writeResult struct {
	out  []byte
	err  error
	pan  string
	hang bool
}

// safeWrite serializes through the given writer under a watchdog, recovering panics.
func safeWrite(w *writer.Writer, doc *sbom.Document, f formats.Format, ro *native.RenderOptions, budget time.Duration) writeResult {
	ch := make(chan writeResult, 1)
	go func() {
		var r writeResult
		defer func() {
			if p := recover(); p != nil {
				r.pan = fmt.Sprintf("%v\n%s", p, trunc(string(debug.Stack()), 1500))
			}
			ch <- r
		}()
		var buf bytes.Buffer
		r.err = w.WriteStreamWithOptions(doc, nopCloser{&buf}, &writer.Options{Format: f, RenderOptions: ro})
		r.out = buf.Bytes()
	}()
	select {
	case r := <-ch:
		return r
	case <-time.After(budget):
		return writeResult{hang: true}
	}
}

var blankTimestamps = map[string]bool{"created": true, "timestamp": true, "\x00now": true}

func describeWild(w wildDoc) string {
	return fmt.Sprintf("ops=%v base=%s", w.Ops, trunc(fmt.Sprintf("%v", mustDoc(w.Base)), 1200))
}

func mustDoc(b []byte) *sbom.Document {
	d := &sbom.Document{}
	_ = proto.Unmarshal(b, d)
	return d
}

// c07Check runs the totality clause for one document in every registered format; returns canonical outputs.
// canonOutput: JSON output up to member order, order inside arrays and creation timestamps; any other (text) encoding
// line by line, creation-time lines left out.
func canonOutput(out []byte) string {
	if c, err := hx.CanonJSON(out, blankTimestamps); err == nil {
		return c
	}
	var ls []string
	for _, ln := range strings.Split(string(out), "\n") {
		if !strings.HasPrefix(strings.TrimSpace(ln), "Created:") {
			ls = append(ls, ln)
		}
	}
	sort.Strings(ls)
	return "text:" + strings.Join(ls, "\n")
}

func c07Totality(w *writer.Writer, wd wildDoc, ro *native.RenderOptions, shared *sbom.Document) (map[formats.Format]string, error) {
	outs := map[formats.Format]string{}
	for _, f := range registeredOutputFormats() {
		// shared: one document object goes through every format (a serializer that leaves something behind in its
		// input shows up as output that depends on what was serialized before); otherwise a fresh one per format
		doc := shared
		if doc == nil {
			doc = wd.build()
		}
		r := safeWrite(w, doc, f, ro, 10*time.Second)
		switch {
		case r.pan != "":
			return nil, fmt.Errorf("serializing to %s panicked: %s", f, r.pan)
		case r.hang:
			return nil, fmt.Errorf("serializing to %s did not return within 10s", f)
		case r.err == nil && len(r.out) == 0:
			return nil, fmt.Errorf("serializing to %s returned neither an error nor output", f)
		}
		if r.err == nil {
			outs[f] = canonOutput(r.out)
		} else {
			outs[f] = "ERROR"
		}
	}
	return outs, nil
}

var c07Seen sync.Once

func c07Property(t *rapid.T) {
	hx.Eval()
	a, b := genWildDoc(t, "A"), genWildDoc(t, "B")
	var ro *native.RenderOptions
	if rapid.Bool().Draw(t, "ro") {
		ro = &native.RenderOptions{Indent: rapid.IntRange(0, 8).Draw(t, "indent")}
	}
	j, _ := json.Marshal(map[string]any{"a": a, "b": b})
	hx.Journal(j)
	for _, op := range a.Ops {
		hx.Class("op:" + op)
	}
	hx.ClassIf(len(a.Ops) == 0, "no_shape_op")
	if len(a.Ops) > 0 {
		if hx.NonTrivial(hx.Digest(string(a.Base), fmt.Sprint(a.Ops), string(b.Base), fmt.Sprint(b.Ops))) {
			hx.Sample(func() any { return describeWild(a) })
		}
	}
	w := writer.New()
	sharedA := a.build()
	a1, err := c07Totality(w, a, ro, sharedA)
	if err != nil {
		t.Fatalf("%v\n document: %s", err, describeWild(a))
	}
	// the path-based entry point is total too: it returns (no panic, no hang), with an error or with a non-empty file
	// (what it writes may differ from the stream entry point: it may complete the document from the path)
	{
		ff := rapid.SampledFrom(registeredOutputFormats()).Draw(t, "fileformat")
		// (a directory of its own: "produces output" is read as "some non-empty file appears in it" - under which name
		// exactly is the writer's business)
		dir := filepath.Join(c06TempDir(), "c07-file-out")
		_ = os.RemoveAll(dir)
		_ = os.MkdirAll(dir, 0o755)
		path := filepath.Join(dir, "c07-out.json")
		var ferr error
		withWatchdog(t, 15*time.Second, "WriteFileWithOptions("+string(ff)+")", func() {
			ferr = w.WriteFileWithOptions(a.build(), path, &writer.Options{Format: ff, RenderOptions: ro})
		})
		if ferr == nil {
			written := int64(0)
			_ = filepath.Walk(dir, func(_ string, info os.FileInfo, err error) error {
				if err == nil && info.Mode().IsRegular() {
					written += info.Size()
				}
				return nil
			})
			if written == 0 {
				t.Fatalf("WriteFileWithOptions(%s) returned no error but left no output in the directory of the path\n document: %s", ff, describeWild(a))
			}
			hx.Class("written_to_file")
		}
	}
	if _, err := c07Totality(w, b, ro, nil); err != nil {
		t.Fatalf("%v\n document: %s", err, describeWild(b))
	}
	// ... and serializations that fail part-way in between (state a serializer keeps across calls must not survive its
	// error paths either): the same document, and a document with identifiers of its own, each with an edge to a node
	// that does not exist, a root that does not exist, or a document type of an unknown kind
	{
		breakage := rapid.SampledFrom([]string{"dangling_edge", "doctype_bad_enum", "dangling_root"}).Draw(t, "breakage")
		other := sbom.NewDocument()
		other.Metadata.Id, other.Metadata.Name = "urn:uuid:c0700000-0000-4000-8000-000000000007", "zz-other"
		other.NodeList.AddRootNode(&sbom.Node{Id: "zz-other-root", Name: "zz-other-root"})
		for _, id := range []string{"zz-ghost-1", "zz-ghost-2"} {
			other.NodeList.AddNode(&sbom.Node{Id: id, Name: id, Version: "1"})
		}
		other.NodeList.Edges = append(other.NodeList.Edges, &sbom.Edge{From: "zz-other-root", Type: sbom.Edge_contains, To: []string{"zz-ghost-1"}},
			&sbom.Edge{From: "zz-ghost-1", Type: sbom.Edge_contains, To: []string{"zz-ghost-2"}}, &sbom.Edge{From: "zz-ghost-2", Type: sbom.Edge_dependsOn, To: []string{"zz-ghost-1"}})
		ob, _ := proto.Marshal(other)
		for _, broken := range []wildDoc{{Base: a.Base, Ops: append(append([]string{}, a.Ops...), breakage)}, {Base: ob, Ops: []string{breakage}}} {
			bo, err := c07Totality(w, broken, ro, nil)
			if err != nil {
				t.Fatalf("%v\n document: %s", err, describeWild(broken))
			}
			for f, o := range bo {
				hx.ClassIf(o == "ERROR" && a1[f] != "ERROR", "failing_document_between_two_serializations:"+string(f))
			}
		}
	}
	a2, err := c07Totality(w, a, ro, sharedA)
	if err != nil {
		t.Fatalf("%v (second serialization)\n document: %s", err, describeWild(a))
	}
	a3, err := c07Totality(writer.New(), a, ro, nil)
	if err != nil {
		t.Fatalf("%v (fresh writer)\n document: %s", err, describeWild(a))
	}
	for _, f := range registeredOutputFormats() {
		if a1[f] != a2[f] || a1[f] != a3[f] {
			// (a dependence on earlier serializations may not reproduce when rapid re-runs the case: say what was seen)
			c07Seen.Do(func() {
				fmt.Printf("VERIF-FAILURE: serializing the same document to %s twice (other documents, some failing, in between / fresh writer) gives different output: first %s | second %s | fresh %s\n",
					f, trunc(a1[f], 400), trunc(a2[f], 400), trunc(a3[f], 400))
			})
			t.Fatalf("serializing the same document to %s twice (another document in between / fresh writer) gives different output:\n first : %s\n second: %s\n fresh : %s\n document: %s",
				f, trunc(a1[f], 1500), trunc(a2[f], 1500), trunc(a3[f], 1500), describeWild(a))
		}
		if a1[f] != "ERROR" {
			hx.Class("written:" + string(f))
		}
	}
}

func TestC07(t *testing.T) { rapid.Check(t, c07Property) }

// TestC07Shapes: every single shape operation (and every pair) on a fixed rich document, all formats.
func TestC07Shapes(t *testing.T) {
	base := sbom.NewDocument()
	base.Metadata.Id, base.Metadata.Version, base.Metadata.Name = "urn:uuid:c07", "3", "doc"
	base.Metadata.Tools = []*sbom.Tool{{Name: "t", Version: "1"}}
	base.Metadata.Authors = []*sbom.Person{{Name: "au", Email: "a@b"}}
	n := func(id string) *sbom.Node {
		return &sbom.Node{Id: id, Name: "n-" + id, Version: "1", Licenses: []string{"MIT"}, Hashes: map[int32]string{3: "00"},
			Suppliers: []*sbom.Person{{Name: "s", Contacts: []*sbom.Person{{Name: "c"}}}}, Originators: []*sbom.Person{{Name: "o"}},
			ExternalReferences: []*sbom.ExternalReference{{Url: "u", Type: sbom.ExternalReference_VCS, Hashes: map[int32]string{1: "h"}}},
			Identifiers:        map[int32]string{1: "pkg:a/b"}, PrimaryPurpose: []sbom.Purpose{sbom.Purpose_LIBRARY}}
	}
	base.NodeList.Nodes = []*sbom.Node{n("a"), n("b"), n("c")}
	base.NodeList.Edges = []*sbom.Edge{{From: "a", Type: sbom.Edge_contains, To: []string{"b"}}, {From: "b", Type: sbom.Edge_dependsOn, To: []string{"c"}}}
	base.NodeList.RootElements = []string{"a"}
	bb, _ := proto.Marshal(base)
	w := writer.New()
	run := func(ops []string) {
		hx.Eval()
		wd := wildDoc{Base: bb, Ops: ops}
		j, _ := json.Marshal(map[string]any{"a": wd})
		hx.Journal(j)
		if _, err := c07Totality(w, wd, nil, nil); err != nil {
			hx.RecordFailure("C07Shapes", fmt.Sprintf("%v (shape ops %v)", err, ops), map[string]any{"a": wd})
			t.Fatalf("%v\n shape ops %v on the reference document", err, ops)
		}
		hx.NonTrivial(hx.Digest("shapes", fmt.Sprint(ops)))
	}
	run(nil)
	for _, o1 := range wildOps {
		run([]string{o1})
		for _, o2 := range wildOps {
			run([]string{o1, o2})
		}
	}
	// nil document
	for _, f := range registeredOutputFormats() {
		r := safeWrite(w, nil, f, nil, 10*time.Second)
		if r.pan != "" || r.hang || r.err == nil {
			t.Fatalf("writing a nil document to %s: panic=%q hang=%v err=%v", f, r.pan, r.hang, r.err)
		}
	}
	hx.SetExhaustive(true)
	hx.Note("every single and every ordered pair of the %d shape operations on a reference document x all registered formats", len(wildOps))
}

func TestC07Replay(t *testing.T) {
	path := os.Getenv("VERIF_REPLAY")
	if path == "" {
		t.Skip("no VERIF_REPLAY")
	}
	raw, err := os.ReadFile(path)
	if err != nil {
		t.Fatal(err)
	}
	var c map[string]wildDoc
	if err := json.Unmarshal(raw, &c); err != nil {
		t.Fatalf("HARNESS-SELFTEST cannot decode replay: %v", err)
	}
	w := writer.New()
	for _, k := range []string{"a", "b", "a"} {
		wd, ok := c[k]
		if !ok {
			continue
		}
		if _, err := c07Totality(w, wd, nil, nil); err != nil {
			t.Fatalf("%v\n document: %s", err, describeWild(wd))
		}
	}
}

var _ = base64.StdEncoding
var _ = strings.Join
