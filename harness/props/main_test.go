package props

import (
	"bytes"
	"fmt"
	"io"
	"os"
	"testing"
	"time"

	"github.com/protobom/protobom/pkg/formats"
	"github.com/protobom/protobom/pkg/reader"
	"github.com/protobom/protobom/pkg/sbom"
	"github.com/protobom/protobom/pkg/writer"
	"github.com/sirupsen/logrus"
	"verif/harness/hx"
)

func TestMain(m *testing.M) {
	logrus.SetOutput(io.Discard)
	logrus.SetLevel(logrus.PanicLevel)
	code := m.Run()
	hx.Flush()
	os.Exit(code)
}

type nopCloser struct{ *bytes.Buffer }

func (nopCloser) Close() error { return nil }

// writeDoc serializes doc in format f through the public writer.
func writeDoc(doc *sbom.Document, f formats.Format, indent int) ([]byte, error) {
	var buf bytes.Buffer
	w := writer.New()
	err := w.WriteStreamWithOptions(doc, nopCloser{&buf}, &writer.Options{Format: f, RenderOptions: renderOpts(indent)})
	return buf.Bytes(), err
}

// readDoc parses data with format auto-detection through the public reader.
func readDoc(data []byte) (*sbom.Document, error) {
	return reader.New().ParseStream(bytes.NewReader(data))
}

// fataler is the common subset of *testing.T and *rapid.T.
type fataler interface {
	Fatalf(format string, args ...any)
	Helper()
}

// withWatchdog runs f and fails when it does not return within d (the goroutine is abandoned).
func withWatchdog(t fataler, d time.Duration, what string, f func()) {
	t.Helper()
	done := make(chan any, 1)
	go func() {
		defer func() { done <- recover() }()
		f()
	}()
	select {
	case p := <-done:
		if p != nil {
			// a panic of the watched call is a failure of what was called, not of the harness: report it as such
			// (re-raising it here would leave a traceback that names only harness frames)
			t.Fatalf("%s panicked: %v", what, p)
		}
	case <-time.After(d):
		t.Fatalf("watchdog: %s did not return within %v", what, d)
	}
}

func trunc(s string, n int) string {
	if len(s) <= n {
		return s
	}
	return s[:n] + fmt.Sprintf("…(+%d bytes)", len(s)-n)
}
