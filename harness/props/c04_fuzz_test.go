package props

import (
	"encoding/base64"
	"os"
	"path/filepath"
	"testing"

	"pgregory.net/rapid"

	"verif/harness/hx"
)

// Native coverage-guided fuzzing (thorough tier only; not reproducible from a seed: the saved crasher is the
// reproducible unit). The semantic oracle is inside the target.

func fuzzSeeds(f *testing.F) {
	f.Add([]byte(baseSPDX))
	f.Add([]byte(baseCDX))
	f.Add([]byte(minimalCDX15))
	for _, s := range []string{`{"spdxVersion":"SPDX-2.3","packages":[null]}`, `{"bomFormat":"CycloneDX","specVersion":"1.5","components":[{"licenses":[{}]}]}`,
		`{"bomFormat":"CycloneDX","specVersion":"1.4","metadata":{"component":null},"components":null}`, "SPDXVersion: SPDX-2.3\n", "[", `{"spdxVersion":"SPDX-2.2","files":[null],"relationships":[null]}`,
		`{"spdxVersion":"SPDX-2.1","relationships":[null]}`, `{"bomFormat":"CycloneDX","specVersion":"1.3","components":[{"components":[{"bom-ref":"a"},{"bom-ref":"a"}]}]}`,
		// runs of nulls, wrong types and empty members at the places parsers index into
		`{"spdxVersion":"SPDX-2.3","files":[null,null],"packages":[{"SPDXID":"SPDXRef-a","externalRefs":[null,null,{}]}],"relationships":[null,null]}`,
		`{"bomFormat":"CycloneDX","specVersion":"1.5","components":[null,null,{"hashes":[null,null],"externalReferences":[null,{"hashes":[null]}],"licenses":[null,null],"properties":[null],"components":[null,null]}],"dependencies":[null,null,{"ref":"a","dependsOn":[null]}]}`,
		`{"bomFormat":"CycloneDX","specVersion":"1.5","metadata":{"tools":[null,null],"authors":[null],"lifecycles":[null,null],"component":{"cpe":"cpe:/","purl":"","components":[null]}}}`,
		`{"spdxVersion":"SPDX-2.3","creationInfo":{"creators":[null,"",":"]},"documentDescribes":[null,null],"packages":[{"checksums":[null,null],"supplier":"","originator":":","primaryPackagePurpose":""}],"files":[{"checksums":[null],"fileTypes":[null,null]}]}`} {
		f.Add([]byte(s))
	}
	for _, p := range realFiles(64 << 10) {
		if b, err := os.ReadFile(p); err == nil {
			f.Add(b)
		}
	}
}

func FuzzC04Parse(f *testing.F) {
	fuzzSeeds(f)
	f.Fuzz(func(t *testing.T, data []byte) {
		// (the native fuzzer kills any execution above 10 s and the library's node grafting is quadratic - about 3 s for
		// 4 000 empty components on an idle machine: inputs stay below 8 KB)
		if len(data) > 1<<13 {
			return
		}
		if v, err := hx.ParseJV(data); (err == nil && maxLicenceEntries(v) > kf05MaxLicences) || kf05Suspect(data) {
			return // known finding KF-05
		}
		if o := totalityCheck(data, nil, c04Budget); o != nil {
			_ = os.WriteFile(filepath.Join(os.TempDir(), "verif-last-fuzz-failure"), []byte(base64.StdEncoding.EncodeToString(data)), 0o644)
			t.Fatalf("%s\n  input (%d bytes): %q", o, len(data), trunc(string(data), 800))
		}
	})
}

func FuzzC06Sniff(f *testing.F) {
	fuzzSeeds(f)
	for _, s := range []string{`{"bomFormat":"CycloneDX","specVersion":"1.5"}`, `{"specVersion":"1.4","bomFormat":"cyclonedx"}`, `{"spdxVersion":"SPDX-2.2"}`, "x\nSPDXVersion:\n'SPDX-2.2'\n"} {
		f.Add([]byte(s))
	}
	f.Fuzz(func(t *testing.T, data []byte) {
		if len(data) > 1<<16 { // (the native fuzzer kills any execution above 10 s: inputs stay small enough for a quadratic pass)
			return
		}
		commonSniffChecks(t, data, "fuzz input")
	})
}

// Coverage-guided search inside the generators' domains: the fuzzer's bytes drive the rapid generators, so every
// input stays schema-valid / representable by construction and the oracle is the property itself (thorough tier).
func FuzzC01RoundTrip(f *testing.F) { f.Fuzz(rapid.MakeFuzz(c01Property)) }
func FuzzC02RoundTrip(f *testing.F) { f.Fuzz(rapid.MakeFuzz(c02Property)) }
func FuzzC03Translate(f *testing.F) { f.Fuzz(rapid.MakeFuzz(c03Property)) }
func FuzzC05Layout(f *testing.F)    { f.Fuzz(rapid.MakeFuzz(c05Property)) }
