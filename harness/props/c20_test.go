package props

import (
	"bytes"
	"encoding/base64"
	"encoding/json"
	"fmt"
	"os"
	"os/exec"
	"path/filepath"
	"regexp"
	"sort"
	"strconv"
	"strings"
	"testing"

	"github.com/protobom/protobom/pkg/sbom"
	"google.golang.org/protobuf/encoding/protowire"
	"google.golang.org/protobuf/proto"
	"pgregory.net/rapid"
	"verif/harness/hx"
)

// ---- strace plumbing ---------------------------------------------------------------------------------------

type sysCall struct {
	Name   string
	Line   string
	Index  int    // 1-based index among the main thread's calls of that name
	Path   string // path inside the store directory the call refers to
	NBytes int    // for write calls: bytes written
	Data   []byte
}

var mutatingCalls = map[string]bool{"openat": true, "open": true, "creat": true, "write": true, "pwrite64": true, "writev": true, "close": true, "fsync": true, "fdatasync": true,
	"rename": true, "renameat": true, "renameat2": true, "unlink": true, "unlinkat": true, "link": true, "linkat": true, "symlink": true, "symlinkat": true,
	"mkdir": true, "mkdirat": true, "chmod": true, "fchmod": true, "fchmodat": true, "ftruncate": true, "truncate": true, "fallocate": true, "rmdir": true, "chown": true, "fchown": true, "fchownat": true}

var straceLine = regexp.MustCompile(`^([a-z0-9_]+)\((.*)$`)

// traceStore runs the child under strace and returns the main thread's calls that refer to dir.
// mainTraceFirst orders the per-thread trace files of `strace -ff` so that the main thread's comes first: it is the
// one that begins with the execve call. (Thread ids are no guide: with pid_max = 32768 they wrap around on a busy
// machine and a later thread may get a smaller id — seen as a spurious "calls from other threads" under load.)
func mainTraceFirst(files []string) []string {
	sort.Slice(files, func(i, j int) bool {
		a, _ := strconv.Atoi(filepath.Ext(files[i])[1:])
		b, _ := strconv.Atoi(filepath.Ext(files[j])[1:])
		return a < b
	})
	for i, f := range files {
		fh, err := os.Open(f)
		if err != nil {
			continue
		}
		head := make([]byte, 16)
		n, _ := fh.Read(head)
		fh.Close()
		if strings.HasPrefix(string(head[:n]), "execve(") {
			files[0], files[i] = files[i], files[0]
			break
		}
	}
	return files
}

// writtenBytes returns the content of the one regular file that the complete store created or changed (nil when that is
// not exactly one file).
func writtenBytes(pre, after string) []byte {
	var found []string
	_ = filepath.Walk(after, func(p string, info os.FileInfo, err error) error {
		if err != nil || info.IsDir() {
			return nil
		}
		rel, _ := filepath.Rel(after, p)
		a, _ := os.ReadFile(p)
		b, berr := os.ReadFile(filepath.Join(pre, rel))
		if berr != nil || !bytes.Equal(a, b) {
			found = append(found, p)
		}
		return nil
	})
	if len(found) != 1 {
		return nil
	}
	data, _ := os.ReadFile(found[0])
	return data
}

// lastTracedStoreErr is the error string the traced (uncrashed) store returned, "" when it succeeded.
var lastTracedStoreErr string

func traceStore(env *storeEnv, reqs []childReq, dir, scratch string) ([]sysCall, int, error) {
	lastTracedStoreErr = ""
	prefix := filepath.Join(scratch, "trace")
	in, _ := json.Marshal(reqs)
	cmd := exec.Command("strace", "-ff", "-y", "-s", "0", "-o", prefix, env.bin)
	cmd.Stdin = bytes.NewReader(in)
	cmd.Env = append(os.Environ(), "GOMAXPROCS=2")
	var out, errb bytes.Buffer
	cmd.Stdout, cmd.Stderr = &out, &errb
	if err := cmd.Run(); err != nil {
		return nil, 0, fmt.Errorf("strace run failed: %v: %s", err, trunc(errb.String(), 300))
	}
	files, _ := filepath.Glob(prefix + ".*")
	if len(files) == 0 {
		return nil, 0, fmt.Errorf("strace wrote no trace files")
	}
	files = mainTraceFirst(files)
	otherThreads := 0
	for _, f := range files[1:] {
		data, _ := os.ReadFile(f)
		for _, ln := range strings.Split(string(data), "\n") {
			m := straceLine.FindStringSubmatch(ln)
			if m != nil && mutatingCalls[m[1]] && strings.Contains(ln, dir) {
				otherThreads++
			}
		}
	}
	data, _ := os.ReadFile(files[0])
	counts := map[string]int{}
	var calls []sysCall
	for _, ln := range strings.Split(string(data), "\n") {
		m := straceLine.FindStringSubmatch(ln)
		if m == nil {
			continue
		}
		name := m[1]
		counts[name]++
		if !mutatingCalls[name] || !strings.Contains(ln, dir) {
			continue
		}
		c := sysCall{Name: name, Line: ln, Index: counts[name]}
		if i := strings.Index(ln, dir); i >= 0 {
			rest := ln[i:]
			end := strings.IndexAny(rest, "\">")
			if end < 0 {
				end = len(rest)
			}
			c.Path = rest[:end]
		}
		if name == "write" || name == "pwrite64" {
			if j := strings.LastIndex(ln, "= "); j >= 0 {
				c.NBytes, _ = strconv.Atoi(strings.TrimSpace(ln[j+2:]))
			}
		}
		calls = append(calls, c)
	}
	var res []childRes
	if json.Unmarshal(out.Bytes(), &res) == nil && len(res) == 1 {
		lastTracedStoreErr = res[0].Err
	}
	return calls, otherThreads, nil
}

// crashBefore re-runs the child and kills it on entry to the idx-th call of name on the main thread, before the
// call takes effect. Returns whether the kill hit the intended call.
func crashBefore(env *storeEnv, reqs []childReq, c sysCall, scratch string) (bool, error) {
	prefix := filepath.Join(scratch, "inj")
	old, _ := filepath.Glob(prefix + ".*")
	for _, f := range old {
		_ = os.Remove(f)
	}
	in, _ := json.Marshal(reqs)
	cmd := exec.Command("strace", "-ff", "-y", "-s", "0", "-o", prefix, "-e", "trace="+c.Name+",execve",
		"-e", fmt.Sprintf("inject=%s:error=EINTR:signal=KILL:when=%d", c.Name, c.Index), env.bin)
	cmd.Stdin = bytes.NewReader(in)
	cmd.Env = append(os.Environ(), "GOMAXPROCS=2")
	var out, errb bytes.Buffer
	cmd.Stdout, cmd.Stderr = &out, &errb
	_ = cmd.Run() // the tracee is killed: a non-zero status is expected
	files, _ := filepath.Glob(prefix + ".*")
	if len(files) == 0 {
		return false, fmt.Errorf("strace wrote no trace files: %s", trunc(errb.String(), 300))
	}
	files = mainTraceFirst(files)
	data, _ := os.ReadFile(files[0])
	lines := strings.Split(strings.TrimSpace(string(data)), "\n")
	n := 0
	hit := false
	for _, ln := range lines {
		if strings.HasPrefix(ln, c.Name+"(") {
			n++
			if n == c.Index {
				// the killed call is printed without a result ("= ?")
				// (temporary files carry a random suffix: compare up to it)
				want := c.Path
				if i := strings.Index(want, ".tmp-"); i >= 0 {
					want = want[:i+5]
				}
				// (whatever temporary names look like, the call must at least be on the same directory)
				hit = strings.HasSuffix(strings.TrimSpace(ln), "= ?") && (want == "" || strings.Contains(ln, want) || strings.Contains(ln, filepath.Dir(c.Path)+"/"))
			}
		}
	}
	killed := strings.Contains(lines[len(lines)-1], "killed by SIGKILL")
	return hit && killed && n == c.Index, nil
}

func copyTree(src, dst string) error {
	return filepath.Walk(src, func(p string, info os.FileInfo, err error) error {
		if err != nil {
			return err
		}
		rel, _ := filepath.Rel(src, p)
		target := filepath.Join(dst, rel)
		if info.IsDir() {
			return os.MkdirAll(target, 0o755)
		}
		data, err := os.ReadFile(p)
		if err != nil {
			return err
		}
		return os.WriteFile(target, data, info.Mode().Perm())
	})
}

func treeKey(dir string) string {
	var parts []string
	_ = filepath.Walk(dir, func(p string, info os.FileInfo, err error) error {
		if err != nil || info.IsDir() {
			return nil
		}
		rel, _ := filepath.Rel(dir, p)
		data, _ := os.ReadFile(p)
		parts = append(parts, fmt.Sprintf("%s:%d:%s", rel, len(data), hx.Digest(string(data))))
		return nil
	})
	sort.Strings(parts)
	return strings.Join(parts, ";")
}

type c20Scenario struct {
	Name      string
	NoClobber bool
	Third     []byte // stored to completion after each crash (recovery step); nil: skip
	OldDoc    []byte // nil: first-time store
	NewDoc    []byte
	Neighbour []byte
	ID        string
}

type crashState struct {
	Dir  string
	What string
}

// c20Run enumerates the crash states of one scenario and checks the oracle. Returns (#states, #non-trivial, error).
func c20Run(env *storeEnv, sc c20Scenario, work string) (int, int, error) {
	pre := filepath.Join(work, "pre")
	base := "base" // relative: states are copied around
	must := func(err error) {
		if err != nil {
			panic("HARNESS-SELFTEST " + err.Error())
		}
	}
	must(os.MkdirAll(pre, 0o755))
	noClobber := false
	storeReq := func(dir string, doc []byte) []childReq {
		return []childReq{{Op: "store", Dir: filepath.Join(dir, base), Doc: base64.StdEncoding.EncodeToString(doc), NoClobber: noClobber}}
	}
	for _, d := range [][]byte{sc.Neighbour, sc.OldDoc} {
		if d != nil {
			if r := env.run(storeReq(pre, d)); r.Exit != 0 || len(r.Res) != 1 || r.Res[0].Err != "" {
				// the store refuses this document (a stricter validation, say): nothing to crash — not this check's subject
				hx.Class("scenario_skipped(preparatory store refused)")
				return 0, 0, nil
			}
		}
	}
	oldKey := treeKey(pre)
	noClobber = sc.NoClobber
	refused := sc.NoClobber && sc.OldDoc != nil // the store must be refused and leave the old document
	// (1) trace the uncrashed store
	traced := filepath.Join(work, "traced")
	must(copyTree(pre, traced))
	calls, other, err := traceStore(env, storeReq(traced, sc.NewDoc), filepath.Join(traced, base), work)
	if err != nil {
		panic("HARNESS-SELFTEST " + err.Error())
	}
	if lastTracedStoreErr != "" && !refused {
		// the complete store itself is refused (a validation, a lost-update guard): there is no store to crash
		hx.Class("scenario_skipped(store refused: " + trunc(lastTracedStoreErr, 60) + ")")
		return 0, 0, nil
	}
	if other > 0 {
		return 0, 0, fmt.Errorf("HARNESS-SELFTEST the store issued %d file-system calls from threads other than the main thread; the crash-point index is not stable", other)
	}
	if len(calls) == 0 && !refused {
		return 0, 0, fmt.Errorf("HARNESS-SELFTEST no file-system calls of the store were found in the trace")
	}
	if !refused {
		// the torn-write states are built from the store's write calls: when the bytes that the complete store left on
		// disk did not go through write calls (a memory-mapped file, copy_file_range, ...) those states cannot be
		// enumerated and the check cannot decide
		written := 0
		for _, c := range calls {
			if c.Name == "write" || c.Name == "pwrite64" {
				written += c.NBytes
			}
		}
		if payload := writtenBytes(pre, traced); len(payload) > 0 && written < len(payload) {
			return 0, 0, fmt.Errorf("HARNESS-SELFTEST the complete store left %d new bytes on disk but issued write calls for %d only: torn-write states cannot be enumerated", len(payload), written)
		}
	}
	newKey := treeKey(traced)
	states := []crashState{{Dir: traced, What: "no crash (complete store)"}}
	// (2) crash before every call
	for ci, c := range calls {
		dir := filepath.Join(work, fmt.Sprintf("crash%02d", ci))
		ok := false
		for attempt := 0; attempt < 3 && !ok; attempt++ {
			_ = os.RemoveAll(dir)
			must(copyTree(pre, dir))
			// the traced run used .../traced/base: the paths differ only by the state directory
			cc := c
			cc.Path = strings.Replace(c.Path, traced, dir, 1)
			hit, err := crashBefore(env, storeReq(dir, sc.NewDoc), cc, work)
			if err != nil {
				panic("HARNESS-SELFTEST " + err.Error())
			}
			ok = hit
		}
		if !ok {
			return 0, 0, fmt.Errorf("HARNESS-SELFTEST could not kill the child at call #%d %s (index %d): %s", ci, c.Name, c.Index, trunc(c.Line, 200))
		}
		states = append(states, crashState{Dir: dir, What: fmt.Sprintf("killed before call %d/%d: %s", ci+1, len(calls), trunc(strings.Replace(c.Line, traced, "<T>", -1), 160))})
		// (3) torn prefixes of this write
		if (c.Name == "write" || c.Name == "pwrite64") && c.NBytes > 0 {
			target := strings.Replace(c.Path, traced, dir, 1)
			if i := strings.Index(target, ".tmp-"); i >= 0 {
				// the temporary file of this run has another random suffix
				if m, _ := filepath.Glob(target[:i+5] + "*"); len(m) == 1 {
					target = m[0]
				}
			}
			cur, rerr := os.ReadFile(target)
			if rerr != nil {
				// whatever the temporary file is called in this run: it is the one file of the crash state that
				// the state before the store does not have
				var fresh []string
				was := snapshotTree(pre)
				for rel, kind := range snapshotTree(dir) {
					if _, ok := was[rel]; !ok && kind == "f" {
						fresh = append(fresh, rel)
					}
				}
				if len(fresh) == 1 {
					target = filepath.Join(dir, fresh[0])
					cur, rerr = os.ReadFile(target)
				}
			}
			if rerr != nil {
				return 0, 0, fmt.Errorf("HARNESS-SELFTEST cannot read the file being written in the crash state: %v", rerr)
			}
			// the bytes this store writes are taken from what the complete (traced) run left on disk — the one file that
			// is new or changed there — not assumed to be the marshalled document (the entry format is the store's
			// business); protobuf field boundaries are added only when those bytes are the marshalled document
			payload := writtenBytes(pre, traced)
			if payload == nil {
				payload = sc.NewDoc
			}
			// offset of this write inside the payload = bytes already in the file
			off := len(cur)
			if off+c.NBytes > len(payload) {
				off = 0
			}
			if off+c.NBytes > len(payload) {
				hx.Class("torn_writes_not_synthesised(write is not a slice of the final entry)")
				continue
			}
			var ps []int
			if c.NBytes <= 512 {
				for p := 1; p < c.NBytes; p++ {
					ps = append(ps, p)
				}
			} else {
				for k := 1; k < 64; k++ {
					ps = append(ps, k*c.NBytes/64)
				}
				ps = append(ps, 1, 2, 3, 5, 8, c.NBytes-1, c.NBytes-2)
			}
			// offsets at which the payload is a sequence of complete top-level protobuf fields (the prefixes
			// that decode without error)
			var boundaries []int
			if bytes.Equal(payload, sc.NewDoc) {
				boundaries = topLevelFieldBoundaries(payload)
			}
			for _, fb := range boundaries {
				if fb > off && fb < off+c.NBytes {
					ps = append(ps, fb-off)
				}
			}
			for _, p := range ps {
				td := filepath.Join(work, fmt.Sprintf("torn%02d-%d", ci, p))
				must(copyTree(dir, td))
				tt := strings.Replace(target, dir, td, 1)
				must(os.WriteFile(tt, append(append([]byte{}, cur...), payload[off:off+p]...), 0o644))
				states = append(states, crashState{Dir: td, What: fmt.Sprintf("write %d torn after %d of %d bytes", ci+1, p, c.NBytes)})
			}
		}
	}
	// (4) retrieve from every state in one fresh child (fall back to one child per state when it dies)
	var neighbourID string
	if sc.Neighbour != nil {
		nd := &sbom.Document{}
		_ = proto.Unmarshal(sc.Neighbour, nd)
		neighbourID = nd.Metadata.Id
	}
	ids := []string{b64(sc.ID)}
	if neighbourID != "" {
		ids = append(ids, b64(neighbourID))
	}
	var reqs []childReq
	for _, st := range states {
		reqs = append(reqs, childReq{Op: "retrieve", Dir: filepath.Join(st.Dir, base), IDs: ids})
	}
	r := env.run(reqs)
	perState := len(ids)
	results := r.Res
	if r.Exit != 0 || len(results) != len(states)*perState {
		results = nil
		for _, rq := range reqs {
			one := env.run([]childReq{rq})
			if one.Exit == 0 && len(one.Res) != perState {
				return len(states), 0, fmt.Errorf("HARNESS-SELFTEST the child finished normally but its answer could not be read (%d results for %d requests): %s", len(one.Res), perState, trunc(one.Stderr, 300))
			}
			if one.Exit != 0 {
				return len(states), 0, fmt.Errorf("retrieving from the crash state %q terminated the process (exit %d): %s", states[len(results)/perState].What, one.Exit, trunc(one.Stderr, 300))
			}
			results = append(results, one.Res...)
		}
	}
	decode := func(b []byte) *sbom.Document { d := &sbom.Document{}; _ = proto.Unmarshal(b, d); return d }
	oldDoc, newDoc := decode(sc.OldDoc), decode(sc.NewDoc)
	nontrivial := 0
	for i, st := range states {
		x := results[i*perState]
		if x.Panic != "" {
			return len(states), nontrivial, fmt.Errorf("retrieve panicked in the crash state %q: %s", st.What, x.Panic)
		}
		k := treeKey(st.Dir)
		if k != oldKey && k != newKey {
			nontrivial++
		}
		if x.Err == "" {
			raw, _ := base64.StdEncoding.DecodeString(x.Doc)
			got := decode(raw)
			isOld := sc.OldDoc != nil && sameComplete(got, oldDoc)
			isNew := sameComplete(got, newDoc)
			if x.NilDoc || (!isOld && !isNew) {
				return len(states), nontrivial, fmt.Errorf("scenario %s, crash state %q: retrieve returned neither an error nor the complete old or new document (got %d bytes: %s)", sc.Name, st.What, len(raw), trunc(fmt.Sprintf("%v", got), 300))
			}
			if refused && !isOld {
				return len(states), nontrivial, fmt.Errorf("scenario %s, state %q: a store refused by no-clobber replaced the old document", sc.Name, st.What)
			}
			if i == 0 && !isNew && !refused {
				return len(states), nontrivial, fmt.Errorf("scenario %s: after the complete store the new document is not retrieved", sc.Name)
			}
		} else if i == 0 {
			return len(states), nontrivial, fmt.Errorf("scenario %s: after the complete store retrieve fails: %s", sc.Name, x.Err)
		}
		if neighbourID != "" {
			y := results[i*perState+1]
			raw, _ := base64.StdEncoding.DecodeString(y.Doc)
			if y.Err != "" || !sameComplete(decode(raw), decode(sc.Neighbour)) {
				return len(states), nontrivial, fmt.Errorf("scenario %s, crash state %q: the entry stored under another identifier is affected (err=%q)", sc.Name, st.What, y.Err)
			}
		}
	}
	// (5) recovery: after the crash the application stores a third, shorter document under the same id and this
	// store completes; the entry must then hold exactly that document, whatever the crash left behind
	third := sc.Third
	if third != nil {
		var follow []crashState
		for i, st := range states {
			if i == 0 || strings.HasPrefix(st.What, "killed") || i%7 == 3 {
				follow = append(follow, st)
			}
		}
		var sreqs, rreqs []childReq
		for _, st := range follow {
			sreqs = append(sreqs, childReq{Op: "store", Dir: filepath.Join(st.Dir, base), Doc: base64.StdEncoding.EncodeToString(third)})
			rreqs = append(rreqs, childReq{Op: "retrieve", Dir: filepath.Join(st.Dir, base), IDs: ids})
		}
		sr := env.run(sreqs)
		if sr.Exit == 0 && len(sr.Res) != len(follow) {
			return len(states), nontrivial, fmt.Errorf("HARNESS-SELFTEST the storing child finished normally but its answer could not be read: %s", trunc(sr.Stderr, 300))
		}
		if sr.Exit != 0 {
			// the storing process ended (the statement says what a later *retrieve* returns, not how a later store may give
			// up): store state by state, one child each, and read a child that died as a store that did not succeed
			sr.Res = nil
			for _, rq := range sreqs {
				one := env.run([]childReq{rq})
				switch {
				case one.Exit == 0 && len(one.Res) == 1:
					sr.Res = append(sr.Res, one.Res[0])
				case one.Exit == 0:
					return len(states), nontrivial, fmt.Errorf("HARNESS-SELFTEST the storing child finished normally but its answer could not be read: %s", trunc(one.Stderr, 300))
				default:
					hx.Class("post-crash_store_ended_the_process")
					sr.Res = append(sr.Res, childRes{Err: fmt.Sprintf("the storing process ended with status %d", one.Exit)})
				}
			}
		}
		rr := env.run(rreqs)
		if rr.Exit == 0 && len(rr.Res) != len(follow)*perState {
			return len(states), nontrivial, fmt.Errorf("HARNESS-SELFTEST the retrieving child finished normally but its answer could not be read: %s", trunc(rr.Stderr, 300))
		}
		if rr.Exit != 0 {
			return len(states), nontrivial, fmt.Errorf("scenario %s: retrieving after a post-crash store terminated the process (exit %d): %s", sc.Name, rr.Exit, trunc(rr.Stderr, 300))
		}
		thirdDoc := decode(third)
		for i, st := range follow {
			// the statement constrains what a later retrieve returns: a complete document or an error. Whether a store
			// after the crash succeeds (a stale lock may make it refuse) is not stated; what it leaves must again be
			// one of the complete documents — never a mixture with what the crashed store left behind.
			hx.ClassIf(sr.Res[i].Err != "", "post-crash_store_refused")
			x := rr.Res[i*perState]
			raw, _ := base64.StdEncoding.DecodeString(x.Doc)
			if x.Err == "" {
				got := decode(raw)
				ok := sameComplete(got, thirdDoc) || sameComplete(got, decode(sc.NewDoc)) || (sc.OldDoc != nil && sameComplete(got, decode(sc.OldDoc)))
				if !ok {
					return len(states), nontrivial, fmt.Errorf("scenario %s, state %q: after the crash and a further store (err=%q), retrieve returns a document that is none of the complete ones (got %d bytes; stored afterwards: %d bytes)", sc.Name, st.What, sr.Res[i].Err, len(raw), len(third))
				}
			}
			if neighbourID != "" {
				y := rr.Res[i*perState+1]
				rawN, _ := base64.StdEncoding.DecodeString(y.Doc)
				if y.Err != "" || !sameComplete(decode(rawN), decode(sc.Neighbour)) {
					return len(states), nontrivial, fmt.Errorf("scenario %s, state %q: the neighbour entry is affected by the post-crash store", sc.Name, st.What)
				}
			}
		}
	}
	return len(states), nontrivial, nil
}

func topLevelFieldBoundaries(b []byte) []int {
	var out []int
	pos := 0
	for pos < len(b) {
		_, _, n := protowire.ConsumeField(b[pos:])
		if n <= 0 {
			break
		}
		pos += n
		out = append(out, pos)
	}
	return out
}

func genC20Doc(seed int, id string, size int) []byte {
	doc := rapid.Custom(func(t *rapid.T) *sbom.Document {
		// (a well-formed graph: a store may validate what it persists)
		d := &sbom.Document{Metadata: &sbom.Metadata{}}
		hx.Populate(t, "md", d.Metadata.ProtoReflect(), hx.PopOpts{Depth: 3, MaxRep: 3, FillProb: 60})
		d.NodeList = hx.GenNodeList(t, "nl", hx.GraphOpts{WellFormed: true, Normalised: true, MaxNodes: 4, MaxEdges: 4})
		return d
	}).Example(seed)
	if doc.Metadata == nil {
		doc.Metadata = &sbom.Metadata{}
	}
	doc.Metadata.Id = id
	if doc.Metadata.Name == "" || doc.Metadata.Name[0] >= 0x80 {
		doc.Metadata.Name = "name of the document" // (the aligned third document differs from this one in the first byte of the name)
	}
	if doc.NodeList == nil {
		doc.NodeList = &sbom.NodeList{}
	}
	for i := 0; ; i++ {
		b, _ := proto.Marshal(doc)
		if len(b) >= size {
			return b
		}
		doc.NodeList.Nodes = append(doc.NodeList.Nodes, &sbom.Node{Id: fmt.Sprintf("pad-%d-%d", seed, i), Name: strings.Repeat("n", 40), Description: strings.Repeat("d", size/8+1)})
	}
}

func TestC20(t *testing.T) {
	if _, err := exec.LookPath("strace"); err != nil {
		t.Fatalf("HARNESS-SELFTEST strace is not installed: %v", err)
	}
	env := newStoreEnv(t)
	env.asUser = false // the tracer and the tracee run as the invoking user
	defer env.cleanup()
	seed := hx.EnvInt("VERIF_SEED", 1)
	shard, shards := hx.Shard()
	ndocs := 2
	sizes := []int{10, 300, 5000}
	if hx.Thorough() {
		ndocs = 8
		sizes = []int{10, 60, 300, 2000, 9000, 70000}
	}
	cnt := 0
	for di := 0; di < ndocs; di++ {
		for si, size := range sizes {
			for _, scn := range []string{"first_store", "first_store_noclobber", "overwrite_other_length", "overwrite_with_neighbour", "overwrite_refused_by_noclobber"} {
				cnt++
				if cnt%shards != shard {
					continue
				}
				id := fmt.Sprintf("urn:doc:%d", di)
				sc := c20Scenario{Name: scn, ID: id, NewDoc: genC20Doc(seed*1000+di*10+si, id, size)}
				if !strings.HasPrefix(scn, "first_store") {
					sc.OldDoc = genC20Doc(seed*1000+di*10+si+500, id, size/2+7)
				}
				sc.NoClobber = strings.HasSuffix(scn, "noclobber")
				if !sc.NoClobber {
					// a third document, shorter than the interrupted one, aligned on a field boundary of it when possible
					sc.Third = genC20Doc(seed*1000+di*10+si+700, id, size/4+3)
					if fb := topLevelFieldBoundaries(sc.NewDoc); len(fb) > 1 && si%2 == 0 {
						d3 := &sbom.Document{}
						_ = proto.Unmarshal(sc.NewDoc[:fb[0]], d3) // metadata only: exactly as long as the first field of the new document
						d3.Metadata.Id = id
						// same encoded length, other content: a mixture "third document + what an interrupted store left
						// behind" must not be byte-identical to the new document (it would be if the third were a prefix of it)
						if nm := []byte(d3.Metadata.Name); len(nm) > 0 && nm[0] < 0x80 {
							if nm[0] == 'Z' {
								nm[0] = 'Y'
							} else {
								nm[0] = 'Z'
							}
							d3.Metadata.Name = string(nm)
						}
						if b3, err := proto.Marshal(d3); err == nil && len(b3) == fb[0] {
							sc.Third = b3
						}
					}
				}
				if scn == "overwrite_with_neighbour" {
					sc.Neighbour = genC20Doc(seed*1000+di*10+si+900, "urn:neighbour", 200)
				}
				work, _ := os.MkdirTemp(env.root, "c20-")
				n, nt, err := c20Run(env, sc, work)
				hx.EvalN(n)
				hx.Class("scenario:" + scn)
				for k := 0; k < nt; k++ {
					hx.NonTrivial(hx.Digest("c20", di, si, scn, k))
				}
				hx.Sample(func() any {
					return map[string]any{"scenario": scn, "new_document_bytes": len(sc.NewDoc), "crash_states": n, "states_differing_from_old_and_new": nt}
				})
				_ = os.RemoveAll(work)
				if err != nil {
					if strings.Contains(err.Error(), "HARNESS-SELFTEST") {
						t.Fatalf("%v", err)
					}
					hx.RecordFailure("C20", err.Error(), map[string]any{"scenario": scn, "seed": seed, "doc": di, "size": size})
					t.Fatalf("%v", err)
				}
			}
		}
	}
	hx.SetExhaustive(true)
	hx.Note("per scenario: every file-system call boundary of the traced store (kill before the call takes effect, by strace fault injection) and torn prefixes of every write (all prefixes for writes <=512 bytes, 70 sampled otherwise)")
}

// sameComplete: the two documents carry the same content. "Complete" is opposed to truncated, empty or mixed; whether
// an absent container comes back as an empty one (nil vs empty node list / metadata) is not this property's subject.
func sameComplete(a, b *sbom.Document) bool {
	if proto.Equal(a, b) {
		return true
	}
	norm := func(d *sbom.Document) *sbom.Document {
		c := proto.Clone(d).(*sbom.Document)
		if c.Metadata == nil {
			c.Metadata = &sbom.Metadata{}
		}
		if c.NodeList == nil {
			c.NodeList = &sbom.NodeList{}
		}
		return c
	}
	return proto.Equal(norm(a), norm(b))
}
