package props

import (
	"encoding/json"
	"fmt"
	"os"
	"strings"
	"testing"

	"github.com/protobom/protobom/pkg/sbom"
	"pgregory.net/rapid"
	"verif/harness/hx"
)

var c08Types = []sbom.Edge_Type{sbom.Edge_contains, sbom.Edge_dependsOn}

func c08Node(t *rapid.T, id string) *sbom.Node {
	n := &sbom.Node{Id: id, Name: "n-" + id}
	switch rapid.IntRange(0, 3).Draw(t, "purl") {
	case 1:
		n.Identifiers = map[int32]string{int32(sbom.SoftwareIdentifierType_PURL): "pkg:npm/" + id + "@1"}
	case 2:
		n.Identifiers = map[int32]string{int32(sbom.SoftwareIdentifierType_PURL): "pkg:deb/" + id + "@1"}
	case 3:
		n.Type = sbom.Node_FILE
	}
	return n
}

func c08List(t *rapid.T, label string) *sbom.NodeList {
	return hx.GenNodeList(t, label, hx.GraphOpts{WellFormed: true, Types: c08Types, NodeGen: c08Node})
}

// wfAll checks the invariant on a list; normalised where the operation promises it.
func wfCheck(t fataler, what string, nl *sbom.NodeList, normalised bool, history func() string) {
	if err := hx.WellFormed(nl, normalised); err != nil {
		t.Fatalf("%s: result is not well-formed%s: %v\n  result: %s\n  history:\n%s", what, map[bool]string{true: "/normalised", false: ""}[normalised], err, hx.DescribeNL(nl), history())
	}
}

// refRemove is the model of RemoveNodes on the set view.
func refRemove(s hx.Sets, ids []string) hx.Sets {
	rm := map[string]bool{}
	for _, id := range ids {
		rm[id] = true
	}
	r := hx.Sets{Nodes: map[string]int{}, Triples: map[hx.Triple]struct{}{}, Roots: map[string]struct{}{}}
	for k, c := range s.Nodes {
		if !rm[k] {
			r.Nodes[k] = c
		}
	}
	for tr := range s.Triples {
		if !rm[tr.From] && !rm[tr.To] {
			r.Triples[tr] = struct{}{}
		}
	}
	for k := range s.Roots {
		if !rm[k] {
			r.Roots[k] = struct{}{}
		}
	}
	return r
}

func c08Property(t *rapid.T) {
	hx.Eval()
	// half of the histories keep results and arguments as the operations hand them out (no defensive clones):
	// a sequence of operations must keep every list well-formed even when lists were derived from one another
	aliased := rapid.Bool().Draw(t, "aliased")
	arg := func(nl *sbom.NodeList) *sbom.NodeList {
		if aliased {
			return nl
		}
		return cloneNL(nl)
	}
	pool := []*sbom.NodeList{c08List(t, "P0"), c08List(t, "P1")}
	var hist []string
	history := func() string { return "    " + strings.Join(hist, "\n    ") }
	logf := func(f string, a ...any) { hist = append(hist, fmt.Sprintf(f, a...)) }
	for i, p := range pool {
		logf("P%d = %s", i, hx.DescribeNL(p))
	}
	mutSteps, removedRootOrEndpoint := 0, false
	put := func(nl *sbom.NodeList) int {
		if nl == nil {
			nl = &sbom.NodeList{}
		}
		nl = arg(nl)
		if len(pool) < 4 {
			pool = append(pool, nl)
			return len(pool) - 1
		}
		k := rapid.IntRange(0, 3).Draw(t, "slot")
		pool[k] = nl
		return k
	}
	pick := func(l string) int { return rapid.IntRange(0, len(pool)-1).Draw(t, l) }
	anyID := func(l string) string { return rapid.SampledFrom(append([]string{"zz", ""}, hx.SmallIDs...)).Draw(t, l) }

	t.Repeat(map[string]func(*rapid.T){
		"union": func(t *rapid.T) {
			i, j := pick("i"), pick("j")
			r := pool[i].Union(arg(pool[j]))
			wfCheck(t, fmt.Sprintf("P%d.Union(P%d)", i, j), r, true, history)
			k := put(r)
			logf("P%d = P%d.Union(P%d) = %s", k, i, j, hx.DescribeNL(pool[k]))
		},
		"intersect": func(t *rapid.T) {
			i, j := pick("i"), pick("j")
			r := pool[i].Intersect(arg(pool[j]))
			wfCheck(t, fmt.Sprintf("P%d.Intersect(P%d)", i, j), r, true, history)
			k := put(r)
			logf("P%d = P%d.Intersect(P%d) = %s", k, i, j, hx.DescribeNL(pool[k]))
		},
		"add": func(t *rapid.T) {
			i, j := pick("i"), pick("j")
			pool[i].Add(arg(pool[j]))
			mutSteps++
			logf("P%d.Add(P%d) -> %s", i, j, hx.DescribeNL(pool[i]))
			wfCheck(t, fmt.Sprintf("P%d.Add(P%d)", i, j), pool[i], true, history)
		},
		"relateListThenGrowBoth": func(t *rapid.T) {
			// a directed three-step history (only meaningful without defensive clones): graft P_j at an anchor of P_i,
			// then grow P_i's relating edge and P_j's root list — a relate that keeps P_j's root slice as the edge's
			// targets lets the two appends overwrite one another
			if !aliased || len(pool) < 2 {
				t.Skip("needs the no-clone mode and two lists")
			}
			i, j := pick("i"), pick("j")
			if i == j || len(pool[i].Nodes) == 0 {
				t.Skip("needs two different lists and an anchor")
			}
			anchor := pool[i].Nodes[rapid.IntRange(0, len(pool[i].Nodes)-1).Draw(t, "anchor")].Id
			ty := rapid.SampledFrom(c08Types).Draw(t, "ty")
			_ = pool[i].RelateNodeListAtID(pool[j], anchor, ty)
			_ = pool[i].RelateNodeAtID(c08Node(t, rapid.SampledFrom([]string{"f", "g"}).Draw(t, "newid")), anchor, ty)
			// (the list added to P_j has a root no other list knows, so that a target written into the wrong list shows)
			fresh := &sbom.NodeList{Nodes: []*sbom.Node{c08Node(t, "h")}, RootElements: []string{"h"}}
			pool[j].Add(fresh)
			mutSteps += 3
			hx.Class("relate_list_then_grow_both")
			logf("P%d.RelateNodeListAtID(P%d, %q, %v); P%d.RelateNodeAtID(new, %q, %v); P%d.Add({h}) -> P%d=%s P%d=%s", i, j, anchor, ty, i, anchor, ty, j, i, hx.DescribeNL(pool[i]), j, hx.DescribeNL(pool[j]))
			wfCheck(t, "RelateNodeListAtID/RelateNodeAtID/Add", pool[i], false, history)
		},
		"removeNodes": func(t *rapid.T) {
			i := pick("i")
			ids := rapid.SliceOfN(rapid.SampledFrom(append([]string{"zz"}, hx.SmallIDs...)), 0, 3).Draw(t, "ids")
			before := hx.GraphSets(pool[i])
			for _, id := range ids {
				if _, ok := before.Roots[id]; ok && before.Nodes[id] > 0 {
					removedRootOrEndpoint = true
				}
				for tr := range before.Triples {
					if (tr.From == id || tr.To == id) && before.Nodes[id] > 0 {
						removedRootOrEndpoint = true
					}
				}
			}
			pool[i].RemoveNodes(ids)
			mutSteps++
			logf("P%d.RemoveNodes(%q) -> %s", i, ids, hx.DescribeNL(pool[i]))
			if d := setsDiff(hx.GraphSets(pool[i]), refRemove(before, ids)); d != "" {
				t.Fatalf("RemoveNodes(%q) did not remove exactly the named nodes with every edge and root entry mentioning them:%s\n  history:\n%s", ids, d, history())
			}
			wfCheck(t, "RemoveNodes", pool[i], true, history)
		},
		"relateNodeAtID": func(t *rapid.T) {
			i := pick("i")
			anchor := anyID("anchor")
			var n *sbom.Node
			if rapid.Bool().Draw(t, "existing") && len(pool[i].Nodes) > 0 {
				n = cloneNL(pool[i]).Nodes[rapid.IntRange(0, len(pool[i].Nodes)-1).Draw(t, "which")]
			} else {
				n = c08Node(t, rapid.SampledFrom(append([]string{"f", "g"}, hx.SmallIDs...)).Draw(t, "newid"))
			}
			ty := rapid.SampledFrom(c08Types).Draw(t, "ty")
			before := hx.Snapshot(pool[i])
			present := nodeByID(pool[i], anchor) != nil
			err := pool[i].RelateNodeAtID(n, anchor, ty)
			mutSteps++
			logf("P%d.RelateNodeAtID(node %q, at %q, %v) err=%v -> %s", i, n.Id, anchor, ty, err, hx.DescribeNL(pool[i]))
			// C08 states only that relating keeps a well-formed graph well-formed: when the call fails, and what
			// exactly it adds, is not part of the statement (a failed call may even have consolidated the edges)
			hx.ClassIf(err != nil, "relate_returned_error")
			_, _ = before, present
			wfCheck(t, "RelateNodeAtID", pool[i], false, history)
		},
		"relateNodeListAtID": func(t *rapid.T) {
			i, j := pick("i"), pick("j")
			anchor := anyID("anchor")
			ty := rapid.SampledFrom(c08Types).Draw(t, "ty")
			before := hx.Snapshot(pool[i])
			bs := hx.GraphSets(pool[i])
			present := nodeByID(pool[i], anchor) != nil
			err := pool[i].RelateNodeListAtID(arg(pool[j]), anchor, ty)
			mutSteps++
			logf("P%d.RelateNodeListAtID(P%d, at %q, %v) err=%v -> %s", i, j, anchor, ty, err, hx.DescribeNL(pool[i]))
			hx.ClassIf(err != nil, "relate_returned_error")
			_, _, _ = before, present, bs
			wfCheck(t, "RelateNodeListAtID", pool[i], false, history)
		},
		"nodeGraph": func(t *rapid.T) {
			i, id := pick("i"), anyID("id")
			r := pool[i].NodeGraph(id)
			wfCheck(t, fmt.Sprintf("P%d.NodeGraph(%q)", i, id), r, true, history)
			k := put(r)
			logf("P%d = P%d.NodeGraph(%q) = %s", k, i, id, hx.DescribeNL(pool[k]))
		},
		"nodeSiblings": func(t *rapid.T) {
			i, id := pick("i"), anyID("id")
			r := pool[i].NodeSiblings(id)
			wfCheck(t, fmt.Sprintf("P%d.NodeSiblings(%q)", i, id), r, true, history)
			k := put(r)
			logf("P%d = P%d.NodeSiblings(%q) = %s", k, i, id, hx.DescribeNL(pool[k]))
		},
		"nodeDescendants": func(t *rapid.T) {
			i, id := pick("i"), anyID("id")
			d := rapid.IntRange(1, 5).Draw(t, "depth")
			r := pool[i].NodeDescendants(id, d)
			wfCheck(t, fmt.Sprintf("P%d.NodeDescendants(%q,%d)", i, id, d), r, true, history)
			k := put(r)
			logf("P%d = P%d.NodeDescendants(%q,%d) = %s", k, i, id, d, hx.DescribeNL(pool[k]))
		},
		"getNodesByPurlType": func(t *rapid.T) {
			i := pick("i")
			pt := rapid.SampledFrom([]string{"npm", "deb", "gem", ""}).Draw(t, "purltype")
			r := pool[i].GetNodesByPurlType(pt)
			wfCheck(t, fmt.Sprintf("P%d.GetNodesByPurlType(%q)", i, pt), r, true, history)
			k := put(r)
			logf("P%d = P%d.GetNodesByPurlType(%q) = %s", k, i, pt, hx.DescribeNL(pool[k]))
		},
		"copy": func(t *rapid.T) {
			i := pick("i")
			r := pool[i].Copy()
			if d := setsDiff(hx.GraphSets(r), hx.GraphSets(pool[i])); d != "" {
				t.Fatalf("Copy differs from its source:%s", d)
			}
			k := put(r)
			logf("P%d = P%d.Copy()", k, i)
		},
		"": func(t *rapid.T) {
			for i, p := range pool {
				if err := hx.WellFormed(p, false); err != nil {
					t.Fatalf("invariant broken: P%d is not well-formed: %v\n  history:\n%s", i, err, history())
				}
			}
		},
	})
	hx.ClassIf(aliased, "no_defensive_clones")
	hx.ClassIf(mutSteps >= 3, "three_or_more_mutating_steps")
	hx.ClassIf(removedRootOrEndpoint, "removed_root_or_edge_endpoint")
	if mutSteps >= 3 && removedRootOrEndpoint {
		if hx.NonTrivial(hx.Digest(strings.Join(hist, "|"))) {
			hx.Sample(func() any { return append([]string{}, hist...) })
		}
	}
}

func TestC08(t *testing.T) { rapid.Check(t, c08Property) }

// ---- bounded-exhaustive pass ----------------------------------------------------------------------

type c08Enum struct {
	N, NT     int
	Code      uint64
	RootMask  int
	N2, NT2   int
	Code2     uint64
	RootMask2 int
}

func subsetsOf(ids []string) [][]string {
	var out [][]string
	for m := 0; m < 1<<len(ids); m++ {
		var s []string
		for i, id := range ids {
			if m&(1<<i) != 0 {
				s = append(s, id)
			}
		}
		out = append(out, s)
	}
	return out
}

// c08Unary applies every unary operation with every argument to the enumerated list.
func c08Unary(e c08Enum) error {
	base := graphFromCode(e.N, e.NT, e.Code, e.RootMask)
	ids := append([]string{}, hx.SmallIDs[:e.N]...)
	idsX := append(append([]string{}, ids...), "zz")
	bs := hx.GraphSets(base)
	for _, sub := range subsetsOf(idsX) {
		nl := cloneNL(base)
		nl.RemoveNodes(sub)
		if d := setsDiff(hx.GraphSets(nl), refRemove(bs, sub)); d != "" {
			return fmt.Errorf("RemoveNodes(%q) on %s:%s", sub, hx.DescribeNL(base), d)
		}
		if err := hx.WellFormed(nl, true); err != nil {
			return fmt.Errorf("RemoveNodes(%q) on %s: %v", sub, hx.DescribeNL(base), err)
		}
	}
	for _, id := range idsX {
		for name, r := range map[string]*sbom.NodeList{"NodeGraph": cloneNL(base).NodeGraph(id), "NodeSiblings": cloneNL(base).NodeSiblings(id)} {
			if err := hx.WellFormed(r, true); err != nil {
				return fmt.Errorf("%s(%q) on %s: %v", name, id, hx.DescribeNL(base), err)
			}
		}
		for d := 1; d <= 4; d++ {
			if err := hx.WellFormed(cloneNL(base).NodeDescendants(id, d), true); err != nil {
				return fmt.Errorf("NodeDescendants(%q,%d) on %s: %v", id, d, hx.DescribeNL(base), err)
			}
		}
		for _, ty := range c08Types[:e.NT] {
			for _, nid := range append([]string{"f"}, ids...) {
				nl := cloneNL(base)
				_ = nl.RelateNodeAtID(&sbom.Node{Id: nid}, id, ty) // (when relating fails is not part of C08)
				if werr := hx.WellFormed(nl, false); werr != nil {
					return fmt.Errorf("RelateNodeAtID(%q at %q) on %s: %v", nid, id, hx.DescribeNL(base), werr)
				}
			}
		}
	}
	if err := hx.WellFormed(cloneNL(base).Copy(), false); err != nil {
		return fmt.Errorf("Copy of %s: %v", hx.DescribeNL(base), err)
	}
	return nil
}

func c08Binary(e c08Enum) error {
	a := graphFromCode(e.N, e.NT, e.Code, e.RootMask)
	b := graphFromCode(e.N2, e.NT2, e.Code2, e.RootMask2)
	// shift b's ids by one so that the lists overlap partially: b uses ids[1..]
	for _, n := range b.Nodes {
		n.Id = shiftID(n.Id)
	}
	for _, ed := range b.Edges {
		ed.From = shiftID(ed.From)
		for i := range ed.To {
			ed.To[i] = shiftID(ed.To[i])
		}
	}
	for i := range b.RootElements {
		b.RootElements[i] = shiftID(b.RootElements[i])
	}
	desc := func() string { return fmt.Sprintf("A=%s B=%s", hx.DescribeNL(a), hx.DescribeNL(b)) }
	if err := hx.WellFormed(cloneNL(a).Union(cloneNL(b)), true); err != nil {
		return fmt.Errorf("Union %s: %v", desc(), err)
	}
	if err := hx.WellFormed(cloneNL(a).Intersect(cloneNL(b)), true); err != nil {
		return fmt.Errorf("Intersect %s: %v", desc(), err)
	}
	r := cloneNL(a)
	r.Add(cloneNL(b))
	if err := hx.WellFormed(r, true); err != nil {
		return fmt.Errorf("Add %s: %v", desc(), err)
	}
	for _, anchor := range hx.SmallIDs[:e.N] {
		for _, ty := range c08Types[:e.NT] {
			r := cloneNL(a)
			_ = r.RelateNodeListAtID(cloneNL(b), anchor, ty) // (when relating fails is not part of C08)
			if err := hx.WellFormed(r, false); err != nil {
				return fmt.Errorf("RelateNodeListAtID at %q %s: %v", anchor, desc(), err)
			}
		}
	}
	return nil
}

func shiftID(id string) string {
	for i, s := range hx.SmallIDs {
		if s == id {
			return hx.SmallIDs[(i+1)%len(hx.SmallIDs)]
		}
	}
	return id
}

func runC08Unary(t *testing.T, n, nt int) {
	shard, shards := hx.Shard()
	total := uint64(1) << uint(n*nt*n)
	for code := uint64(shard); code < total; code += uint64(shards) {
		for rm := 0; rm < 1<<n; rm++ {
			e := c08Enum{N: n, NT: nt, Code: code, RootMask: rm}
			hx.Eval()
			if err := c08Unary(e); err != nil {
				hx.RecordFailure("C08Exhaustive", err.Error(), e)
				t.Fatal(err)
			}
			if rm != 0 && code != 0 {
				hx.NonTrivial(hx.Digest("u", n, nt, code, rm))
				if code%499 == 3 {
					hx.Sample(func() any {
						return "every unary operation with every argument on " + hx.DescribeNL(graphFromCode(n, nt, code, rm))
					})
				}
			}
		}
	}
	hx.Note("unary operations: all %d well-formed normalised lists over %d nodes / %d edge types x %d root subsets, every argument [shard %d/%d]", total, n, nt, 1<<n, shard, shards)
}

func runC08Binary(t *testing.T, n, nt int) {
	shard, shards := hx.Shard()
	total := uint64(1) << uint(n*nt*n)
	cnt := 0
	for code := uint64(0); code < total; code++ {
		for rm := 0; rm < 1<<n; rm++ {
			for code2 := uint64(0); code2 < total; code2++ {
				for rm2 := 0; rm2 < 1<<n; rm2++ {
					cnt++
					if cnt%shards != shard {
						continue
					}
					e := c08Enum{N: n, NT: nt, Code: code, RootMask: rm, N2: n, NT2: nt, Code2: code2, RootMask2: rm2}
					hx.Eval()
					if err := c08Binary(e); err != nil {
						hx.RecordFailure("C08Exhaustive", err.Error(), e)
						t.Fatal(err)
					}
					if code != 0 && code2 != 0 {
						hx.NonTrivial(hx.Digest("b", n, nt, code, rm, code2, rm2))
					}
				}
			}
		}
	}
	hx.Note("binary operations: all ordered pairs of lists over %d nodes / %d edge types (second operand's ids shifted by one for partial overlap) [shard %d/%d]", n, nt, shard, shards)
}

func TestC08Exhaustive(t *testing.T) {
	runC08Unary(t, 1, 2)
	runC08Unary(t, 2, 2)
	runC08Unary(t, 3, 1)
	runC08Binary(t, 1, 2)
	runC08Binary(t, 2, 1)
	if hx.Thorough() {
		runC08Unary(t, 3, 2)
		runC08Binary(t, 2, 2)
	}
	hx.SetExhaustive(true)
}

func TestC08Replay(t *testing.T) {
	path := os.Getenv("VERIF_REPLAY")
	if path == "" {
		t.Skip("no VERIF_REPLAY")
	}
	data, err := os.ReadFile(path)
	if err != nil {
		t.Fatal(err)
	}
	var e c08Enum
	if err := json.Unmarshal(data, &e); err != nil {
		t.Fatalf("HARNESS-SELFTEST cannot decode replay: %v", err)
	}
	if e.N2 > 0 {
		err = c08Binary(e)
	} else {
		err = c08Unary(e)
	}
	if err != nil {
		t.Fatal(err)
	}
}
