package props

import (
	"fmt"
	"os"
	"reflect"
	"sort"
	"strings"
	"testing"
	"unicode/utf8"

	"github.com/protobom/protobom/pkg/sbom"
	"google.golang.org/protobuf/proto"
	"google.golang.org/protobuf/reflect/protoreflect"
	"pgregory.net/rapid"
	"verif/harness/hx"
)

// The flattened encoding behind Equal/Checksum does not quote values (known finding KF-02): values
// containing its metacharacters can collide. The alarm-capable stream draws text without them.
const kf02Meta = ":()+[]"

func hasMeta(s string) bool { return strings.ContainsAny(s, kf02Meta) }

func textNoMeta() *rapid.Generator[string] {
	return rapid.OneOf(
		rapid.SampledFrom([]string{"a", "b", "c", "x1", "MIT", "pkg-npm-a@1", "deadbeef", "NOASSERTION", "é ", "\U0001F600", " ", "a b", "日本語"}),
		rapid.StringMatching(`[a-zA-Z0-9 .,;/@'=_#%!?*-]{1,10}`),
		hx.TextAny().Filter(func(s string) bool { return s != "" && !hasMeta(s) && utf8.ValidString(s) }),
	)
}

func textWithMeta() *rapid.Generator[string] {
	return rapid.OneOf(
		rapid.SampledFrom([]string{"a:b", "a:protobom.protobom.Node.version:1", "b+c", "x(y)", "n(a)o(false)", "[0]:a", ":", "+", "a", "1"}),
		hx.TextAny().Filter(func(s string) bool { return s != "" && utf8.ValidString(s) }),
	)
}

func anyStringHasMeta(m protoreflect.Message) bool {
	found := false
	var walk func(m protoreflect.Message)
	walk = func(m protoreflect.Message) {
		m.Range(func(fd protoreflect.FieldDescriptor, v protoreflect.Value) bool {
			switch {
			case fd.IsMap():
				v.Map().Range(func(_ protoreflect.MapKey, mv protoreflect.Value) bool {
					if fd.MapValue().Kind() == protoreflect.StringKind && hasMeta(mv.String()) {
						found = true
					}
					return true
				})
			case fd.IsList():
				for i := 0; i < v.List().Len(); i++ {
					if fd.Message() != nil {
						walk(v.List().Get(i).Message())
					} else if fd.Kind() == protoreflect.StringKind && hasMeta(v.List().Get(i).String()) {
						found = true
					}
				}
			case fd.Message() != nil:
				walk(v.Message())
			case fd.Kind() == protoreflect.StringKind:
				if hasMeta(v.String()) {
					found = true
				}
			}
			return true
		})
	}
	walk(m)
	return found
}

// permuteMsg permutes every repeated field of a clone of m (top level only): the order-irrelevant
// collections of the property (licences, attribution, file types, purposes, suppliers, originators,
// external references; map insertion order is irrelevant by construction). The order of a person's
// contacts is not claimed to be irrelevant and is left alone.
// the collections the statement calls order-irrelevant (a list attribute added to the schema later may well be ordered)
var c13SetValued = map[string]bool{"licenses": true, "attribution": true, "file_types": true, "primary_purpose": true, "suppliers": true,
	"originators": true, "external_references": true}

func permuteMsg(t *rapid.T, m proto.Message) (proto.Message, bool) {
	c := proto.Clone(m)
	changed := false
	var walk func(m protoreflect.Message)
	walk = func(m protoreflect.Message) {
		m.Range(func(fd protoreflect.FieldDescriptor, v protoreflect.Value) bool {
			switch {
			case fd.IsMap():
			case fd.IsList() && c13SetValued[string(fd.Name())]:
				l := v.List()
				for i := l.Len() - 1; i > 0; i-- {
					j := rapid.IntRange(0, i).Draw(t, "perm")
					if i != j {
						a, b := l.Get(i), l.Get(j)
						if fd.Message() != nil {
							a = protoreflect.ValueOfMessage(proto.Clone(a.Message().Interface()).ProtoReflect())
							b = protoreflect.ValueOfMessage(proto.Clone(b.Message().Interface()).ProtoReflect())
						}
						l.Set(i, b)
						l.Set(j, a)
						changed = true
					}
				}
			}
			return true
		})
	}
	walk(c.ProtoReflect())
	return c, changed
}

// jitterNanos changes the sub-second part of every timestamp reachable from m (same second, another nanosecond value
// of a different decimal and varint width); reports whether any timestamp was changed. Dates are compared to the
// second, so the result carries the same content.
func jitterNanos(t *rapid.T, m protoreflect.Message) bool {
	changed := false
	if m.Descriptor().FullName() == "google.protobuf.Timestamp" {
		nf := m.Descriptor().Fields().ByName("nanos")
		if m.Get(m.Descriptor().Fields().ByName("seconds")).Int() == 0 {
			return false // (second 0 with nanos 0 would be the all-zero date, whose reading is left open)
		}
		old := int32(m.Get(nf).Int())
		nv := rapid.SampledFrom([]int32{0, 1, 127, 128, 1000, 16384, 500000000, 999999999}).Draw(t, "nanos")
		if nv != old {
			m.Set(nf, protoreflect.ValueOfInt32(nv))
			changed = true
		}
		return changed
	}
	m.Range(func(fd protoreflect.FieldDescriptor, v protoreflect.Value) bool {
		switch {
		case fd.IsMap():
			if fd.MapValue().Message() != nil {
				v.Map().Range(func(_ protoreflect.MapKey, mv protoreflect.Value) bool {
					changed = jitterNanos(t, mv.Message()) || changed
					return true
				})
			}
		case fd.IsList():
			if fd.Message() != nil {
				for i := 0; i < v.List().Len(); i++ {
					changed = jitterNanos(t, v.List().Get(i).Message()) || changed
				}
			}
		case fd.Message() != nil:
			changed = jitterNanos(t, v.Message()) || changed
		}
		return true
	})
	return changed
}

// nodeSetKey is the node's content with every list-valued attribute read as a set.
func nodeSetKey(n *sbom.Node) string {
	var b strings.Builder
	fds := n.ProtoReflect().Descriptor().Fields()
	for i := 0; i < fds.Len(); i++ {
		fmt.Fprintf(&b, "%d=%s;", fds.Get(i).Number(), hx.RefSetKey(n.ProtoReflect(), fds.Get(i), true))
	}
	return b.String()
}

// listSetKey is the node list's content with every list attribute of its nodes read as a set.
func listSetKey(nl *sbom.NodeList) string {
	var ks []string
	for _, n := range nl.GetNodes() {
		ks = append(ks, nodeSetKey(n))
	}
	sort.Strings(ks)
	c := proto.Clone(nl).(*sbom.NodeList)
	c.Nodes = nil
	return strings.Join(ks, "|") + "#" + hx.RefKey(c, true)
}

func genC13Node(t *rapid.T, label string, text *rapid.Generator[string]) *sbom.Node {
	n := &sbom.Node{}
	hx.Populate(t, label, n.ProtoReflect(), hx.PopOpts{Text: text, Depth: 3, MaxRep: 3, FillProb: 45, NoZeroTimestamps: true})
	return n
}

// nodeEqualAll evaluates every equality notion on a pair.
func nodeEq(a, b *sbom.Node) (eq, ck bool) { return a.Equal(b), a.Checksum() == b.Checksum() }

func c13NodeProperty(t *rapid.T) {
	hx.Eval()
	metaStream := rapid.IntRange(0, 4).Draw(t, "stream") == 0
	text := textNoMeta()
	if metaStream {
		text = textWithMeta()
		hx.Class("stream_with_metacharacters(feeds KF-02 counter only)")
	}
	// (through proto.Clone: every empty collection is absent, so that no comparison below mixes the two representations)
	x := proto.Clone(genC13Node(t, "x", text)).(*sbom.Node)
	y := proto.Clone(genC13Node(t, "y", text)).(*sbom.Node)

	if rapid.IntRange(0, 3).Draw(t, "sharePtr") == 0 && sharePersonPointers(x.Suppliers, x.Originators) {
		hx.Class("person_pointer_reachable_twice")
	}
	// reflexive
	if eq, _ := nodeEq(x, x); !eq {
		t.Fatalf("node not equal to itself: %s", hx.RefKey(x, true))
	}
	// permutation invariance + clone
	pm, changed := permuteMsg(t, x)
	p := pm.(*sbom.Node)
	if eq, ck := nodeEq(x, p); !eq || !ck {
		t.Fatalf("permuting order-irrelevant collections changes equality/checksum (eq=%v ck=%v):\n x=%s\n p=%s", eq, ck, hx.RefKey(x, true), hx.RefKey(p, true))
	}
	// (whether an empty non-nil collection equals an absent one is not part of the statement: counted, not asserted)
	en := proto.Clone(x).(*sbom.Node)
	emptyNonNil(reflect.ValueOf(en))
	if eq, _ := nodeEq(x, en); !eq {
		hx.Class("empty_collection_differs_from_absent_one")
	}
	// dates are compared to the second: another sub-second part is the same content
	jn := proto.Clone(x).(*sbom.Node)
	if jitterNanos(t, jn.ProtoReflect()) {
		hx.Class("same_second_other_nanos")
		eq, ck := nodeEq(x, jn)
		eq2, _ := nodeEq(jn, x)
		if !eq || !eq2 || !ck {
			t.Fatalf("nodes whose dates differ only below the second do not compare equal (Equal=%v/%v checksum equal=%v):\n a=%s\n b=%s", eq, eq2, ck, hx.RefKey(x, false), hx.RefKey(jn, false))
		}
	}
	// symmetric, agrees with checksum, sound w.r.t. the reference, on arbitrary pairs
	for _, pr := range [][2]*sbom.Node{{x, y}, {y, x}, {x, p}, {p, x}} {
		eq, ck := nodeEq(pr[0], pr[1])
		req, _ := nodeEq(pr[1], pr[0])
		if eq != req {
			t.Fatalf("Equal not symmetric:\n a=%s\n b=%s", hx.RefKey(pr[0], true), hx.RefKey(pr[1], true))
		}
		if eq != ck {
			t.Fatalf("Equal=%v but checksums equal=%v:\n a=%s\n b=%s", eq, ck, hx.RefKey(pr[0], true), hx.RefKey(pr[1], true))
		}
		if eq && hx.RefKey(pr[0], true) != hx.RefKey(pr[1], true) {
			if anyStringHasMeta(pr[0].ProtoReflect()) || anyStringHasMeta(pr[1].ProtoReflect()) {
				hx.Finding("KF-02")
				continue
			}
			t.Fatalf("nodes compare equal although their content differs:\n a=%s\n b=%s", hx.RefKey(pr[0], true), hx.RefKey(pr[1], true))
		}
	}
	// discrimination: change exactly one leaf
	m := proto.Clone(x).(*sbom.Node)
	ls := hx.Leaves(m.ProtoReflect(), "")
	leaf := ls[rapid.IntRange(0, len(ls)-1).Draw(t, "leaf")]
	leaf.Apply(t)
	// no change of content: same to the second, or a list attribute that only gained a repeated member (set-valued)
	sameToSecond := hx.RefKey(m, true) == hx.RefKey(x, true) || nodeSetKey(m) == nodeSetKey(x)
	hx.Class("mutated:" + leafClass(leaf.Path))
	if changed || !sameToSecond {
		if hx.NonTrivial(hx.Digest("node", hx.RefKey(x, false), leaf.Path, hx.RefKey(m, false))) {
			hx.Sample(func() any {
				return map[string]string{"x": hx.RefKey(x, true), "mutated_leaf": leaf.Path, "x'": hx.RefKey(m, true)}
			})
		}
	}
	if !sameToSecond {
		eq, ck := nodeEq(x, m)
		eq2, _ := nodeEq(m, x)
		if eq || eq2 || ck {
			if anyStringHasMeta(x.ProtoReflect()) || anyStringHasMeta(m.ProtoReflect()) {
				hx.Finding("KF-02")
			} else {
				t.Fatalf("changing the single attribute %s is not detected (Equal=%v/%v checksum equal=%v):\n x =%s\n x'=%s", leaf.Path, eq, eq2, ck, hx.RefKey(x, true), hx.RefKey(m, true))
			}
		}
		// transitivity on the triple (p, x, m): p==x, so p==m iff x==m
		if a, _ := nodeEq(p, m); a != eq {
			t.Fatalf("transitivity broken: p=x but Equal(p,x')=%v and Equal(x,x')=%v", a, eq)
		}
	}
	// nil argument
	if x.Equal(nil) {
		t.Fatalf("a node compares equal to nil")
	}
}

func leafClass(path string) string {
	// strip indices and keys: ".suppliers[0].contacts[1].name" -> "suppliers.contacts.name"
	var b strings.Builder
	depth := 0
	for _, r := range path {
		switch {
		case r == '[':
			depth++
		case r == ']':
			depth--
		case depth == 0:
			b.WriteRune(r)
		}
	}
	s := strings.TrimPrefix(b.String(), ".")
	if strings.HasSuffix(path, "[+]") {
		s += "+elem"
	}
	return s
}

func TestC13Node(t *testing.T) { rapid.Check(t, c13NodeProperty) }

// ---- small-domain triples: equalities arise by chance, so symmetry/transitivity are exercised for real

func c13TripleProperty(t *rapid.T) {
	hx.Eval()
	gen := func(l string) *sbom.Node {
		n := &sbom.Node{}
		n.Name = rapid.SampledFrom([]string{"", "a", "b"}).Draw(t, l+"name")
		n.Version = rapid.SampledFrom([]string{"", "1"}).Draw(t, l+"ver")
		n.Licenses = rapid.SliceOfN(rapid.SampledFrom([]string{"MIT", "GPL"}), 0, 2).Draw(t, l+"lic")
		if rapid.Bool().Draw(t, l+"h") {
			n.Hashes = map[int32]string{int32(rapid.IntRange(1, 2).Draw(t, l+"ha")): "h"}
		}
		if rapid.Bool().Draw(t, l+"s") {
			n.Suppliers = []*sbom.Person{{Name: rapid.SampledFrom([]string{"p", "q"}).Draw(t, l+"sn"), IsOrg: rapid.Bool().Draw(t, l+"so")}}
		}
		return n
	}
	a, b, c := gen("a"), gen("b"), gen("c")
	ab, _ := nodeEq(a, b)
	bc, _ := nodeEq(b, c)
	ac, _ := nodeEq(a, c)
	ba, _ := nodeEq(b, a)
	if ab != ba {
		t.Fatalf("Equal not symmetric on %s / %s", hx.RefKey(a, true), hx.RefKey(b, true))
	}
	if ab && bc && !ac {
		t.Fatalf("Equal not transitive: %s = %s = %s", hx.RefKey(a, true), hx.RefKey(b, true), hx.RefKey(c, true))
	}
	ra, rb := hx.RefKey(a, true), hx.RefKey(b, true)
	// nodes that differ only by a repeated member of a list attribute may compare either way (set-valued)
	if ab != (ra == rb) && nodeSetKey(a) != nodeSetKey(b) {
		t.Fatalf("Equal=%v but reference equality=%v: %s / %s", ab, ra == rb, ra, rb)
	}
	if ab && bc {
		hx.Class("equal_chain")
		hx.NonTrivial(hx.Digest("triple", ra, rb, hx.RefKey(c, true)))
	}
}

func TestC13Triples(t *testing.T) { rapid.Check(t, c13TripleProperty) }

// ---- edges and node lists -----------------------------------------------------------------------

func c13ListProperty(t *rapid.T) {
	hx.Eval()
	idText := rapid.SampledFrom([]string{"a", "b", "c", "d", "e", "a b", "x.y", "é"})
	ids := rapid.SliceOfNDistinct(idText, 1, 5, rapid.ID[string]).Draw(t, "ids")
	nl := &sbom.NodeList{}
	for _, id := range ids {
		n := genC13Node(t, "n", textNoMeta())
		n.Id = id
		nl.Nodes = append(nl.Nodes, n)
	}
	// node lists may repeat an identifier (AddNode does not prevent it): equality must still be an equivalence
	if len(nl.Nodes) >= 2 && rapid.IntRange(0, 3).Draw(t, "dupids") == 0 {
		nl.Nodes[len(nl.Nodes)-1].Id = nl.Nodes[0].Id
		if rapid.Bool().Draw(t, "dupcontent") {
			nl.Nodes[len(nl.Nodes)-1] = proto.Clone(nl.Nodes[0]).(*sbom.Node)
		}
		hx.Class("list_with_repeated_node_id")
	}
	seen := map[string]bool{}
	for i := rapid.IntRange(0, 5).Draw(t, "ne"); i > 0; i-- {
		e := &sbom.Edge{From: rapid.SampledFrom(ids).Draw(t, "from"), Type: sbom.Edge_Type(rapid.IntRange(0, 44).Draw(t, "ty")),
			To: rapid.SliceOfNDistinct(rapid.SampledFrom(ids), 1, 3, rapid.ID[string]).Draw(t, "to")}
		k := fmt.Sprintf("%q/%d", e.From, e.Type)
		if seen[k] {
			continue
		}
		seen[k] = true
		nl.Edges = append(nl.Edges, e)
	}
	nl.RootElements = rapid.SliceOfNDistinct(rapid.SampledFrom(ids), 0, 3, rapid.ID[string]).Draw(t, "roots")
	nl = proto.Clone(nl).(*sbom.NodeList) // empty collections become absent ones: representations are not mixed below

	// edges: reflexive, permutation of targets, discrimination
	for _, e := range nl.Edges {
		if !e.Equal(e) || e.Equal(nil) {
			t.Fatalf("edge reflexivity/nil: %v", e)
		}
		pe := &sbom.Edge{From: e.From, Type: e.Type, To: hx.Permute(t, "pt", e.To)}
		if !e.Equal(pe) || !pe.Equal(e) {
			t.Fatalf("edge equality depends on target order: %v vs %v", e.To, pe.To)
		}
		me := proto.Clone(e).(*sbom.Edge)
		ls := hx.Leaves(me.ProtoReflect(), "")
		lf := ls[rapid.IntRange(0, len(ls)-1).Draw(t, "eleaf")]
		lf.Apply(t)
		hx.Class("mutated:edge." + leafClass(lf.Path))
		if hx.RefKey(me, true) != hx.RefKey(e, true) && (e.Equal(me) || me.Equal(e)) {
			t.Fatalf("changing edge attribute %s is not detected: %v vs %v", lf.Path, e, me)
		}
	}

	// list: reflexive; invariant under permutation of nodes, edges, targets, roots, set-valued attributes
	if !nl.Equal(nl) || nl.Equal(nil) {
		t.Fatalf("node list reflexivity/nil broken: %s", hx.DescribeNL(nl))
	}
	p := &sbom.NodeList{}
	for _, n := range hx.Permute(t, "pn", nl.Nodes) {
		pm, _ := permuteMsg(t, n)
		p.Nodes = append(p.Nodes, pm.(*sbom.Node))
	}
	for _, e := range hx.Permute(t, "pe", nl.Edges) {
		p.Edges = append(p.Edges, &sbom.Edge{From: e.From, Type: e.Type, To: hx.Permute(t, "pt2", e.To)})
	}
	p.RootElements = hx.Permute(t, "pr", nl.RootElements)
	_ = rapid.Bool().Draw(t, "emptyNonNil") // (kept so that recorded cases replay; nil and empty are no longer mixed)
	if !nl.Equal(p) || !p.Equal(nl) {
		t.Fatalf("node list equality depends on order:\n a=%s\n b=%s\n refA=%s\n refB=%s", hx.DescribeNL(nl), hx.DescribeNL(p), hx.RefKey(nl, true), hx.RefKey(p, true))
	}
	jl := proto.Clone(p).(*sbom.NodeList)
	if jitterNanos(t, jl.ProtoReflect()) {
		hx.Class("same_second_other_nanos")
		if !nl.Equal(jl) || !jl.Equal(nl) {
			t.Fatalf("node lists whose dates differ only below the second do not compare equal:\n a=%s\n b=%s", hx.RefKey(nl, false), hx.RefKey(jl, false))
		}
	}
	// discrimination: one leaf anywhere in the list (node attribute, edge field, root element)
	m := proto.Clone(p).(*sbom.NodeList)
	ls := hx.Leaves(m.ProtoReflect(), "")
	lf := ls[rapid.IntRange(0, len(ls)-1).Draw(t, "lleaf")]
	lf.Apply(t)
	hx.Class("mutated:list." + leafClass(lf.Path))
	if hx.RefKey(m, true) != hx.RefKey(nl, true) && listSetKey(m) != listSetKey(nl) {
		if hx.NonTrivial(hx.Digest("list", hx.RefKey(nl, false), lf.Path, hx.RefKey(m, false))) {
			hx.Sample(func() any { return map[string]string{"list": hx.DescribeNL(nl), "mutated_leaf": lf.Path} })
		}
		if nl.Equal(m) || m.Equal(nl) {
			t.Fatalf("changing %s is not detected by NodeList.Equal:\n a=%s\n b=%s\n refA=%s\n refB=%s", lf.Path, hx.DescribeNL(nl), hx.DescribeNL(m), hx.RefKey(nl, true), hx.RefKey(m, true))
		}
	}
}

func TestC13Lists(t *testing.T) { rapid.Check(t, c13ListProperty) }

// ---- known finding KF-02 witnesses ------------------------------------------------------------

func kf02Witness() bool {
	a := &sbom.Node{Name: "a", Version: "1"}
	b := &sbom.Node{Name: "a:protobom.protobom.Node.version:1"}
	e1 := &sbom.Edge{From: "a", Type: sbom.Edge_contains, To: []string{"b+c"}}
	e2 := &sbom.Edge{From: "a", Type: sbom.Edge_contains, To: []string{"b", "c"}}
	return a.Equal(b) && a.Checksum() == b.Checksum() && e1.Equal(e2)
}

func TestC13Findings(t *testing.T) {
	hx.Eval()
	runFindings(t, "C13", map[string]func() bool{"KF-02": kf02Witness})
}

var _ = os.Getenv
