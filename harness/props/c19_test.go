package props

import (
	"bytes"
	"crypto/sha256"
	"encoding/base64"
	"encoding/json"
	"fmt"
	"google.golang.org/protobuf/encoding/protowire"
	"os"
	"os/exec"
	"path/filepath"
	"sort"
	"strings"
	"syscall"
	"testing"
	"time"

	"github.com/protobom/protobom/pkg/sbom"
	"google.golang.org/protobuf/proto"
	"google.golang.org/protobuf/reflect/protoreflect"
	"pgregory.net/rapid"
	"verif/harness/hx"
)

type childReq struct {
	Op        string     `json:"op"`
	Steps     []childReq `json:"steps,omitempty"`
	Dir       string     `json:"dir"`
	Doc       string     `json:"doc_b64,omitempty"`
	NilDoc    bool       `json:"nil_doc,omitempty"`
	NilMeta   bool       `json:"nil_meta,omitempty"`
	NoClobber bool       `json:"noclobber,omitempty"`
	IDs       []string   `json:"ids_b64,omitempty"`
}

type childRes struct {
	Err    string `json:"err,omitempty"`
	NilDoc bool   `json:"nil_doc,omitempty"`
	Doc    string `json:"doc_b64,omitempty"`
	Panic  string `json:"panic,omitempty"`
}

type childRun struct {
	Exit   int
	Stderr string
	Res    []childRes
}

const nobodyID = 65534

// storeEnv holds the per-process scratch area: a world-traversable directory holding a copy of the child binary.
type storeEnv struct {
	root   string
	bin    string
	asUser bool
}

func newStoreEnv(t interface{ Fatalf(string, ...any) }) *storeEnv {
	src := os.Getenv("VERIF_STORECHILD")
	if src == "" {
		t.Fatalf("HARNESS-SELFTEST VERIF_STORECHILD is not set (the driver builds cmd/storechild)")
	}
	root, err := os.MkdirTemp("", "verif-store-")
	if err != nil {
		t.Fatalf("HARNESS-SELFTEST %v", err)
	}
	_ = os.Chmod(root, 0o755)
	data, err := os.ReadFile(src)
	if err != nil {
		t.Fatalf("HARNESS-SELFTEST %v", err)
	}
	bin := filepath.Join(root, "storechild")
	if err := os.WriteFile(bin, data, 0o755); err != nil {
		t.Fatalf("HARNESS-SELFTEST %v", err)
	}
	return &storeEnv{root: root, bin: bin, asUser: os.Geteuid() == 0}
}

func (e *storeEnv) cleanup() {
	// restore permissions so that everything can be removed
	_ = filepath.Walk(e.root, func(p string, info os.FileInfo, err error) error {
		if err == nil && info.IsDir() {
			_ = os.Chmod(p, 0o755)
		}
		return nil
	})
	_ = os.RemoveAll(e.root)
}

// newTree creates T (owned by the unprivileged user when running as root) and returns T.
func (e *storeEnv) newTree() string {
	dir, _ := os.MkdirTemp(e.root, "T")
	_ = os.Chmod(dir, 0o755)
	if e.asUser {
		_ = os.Chown(dir, nobodyID, nobodyID)
	}
	return dir
}

func (e *storeEnv) run(reqs []childReq) childRun {
	in, _ := json.Marshal(reqs)
	cmd := exec.Command(e.bin)
	cmd.Stdin = bytes.NewReader(in)
	var stdout, stderr bytes.Buffer
	cmd.Stdout, cmd.Stderr = &stdout, &stderr
	cmd.Dir = e.root
	if e.asUser {
		cmd.SysProcAttr = &syscall.SysProcAttr{Credential: &syscall.Credential{Uid: nobodyID, Gid: nobodyID}}
	}
	done := make(chan error, 1)
	if err := cmd.Start(); err != nil {
		return childRun{Exit: -2, Stderr: err.Error()}
	}
	go func() { done <- cmd.Wait() }()
	var werr error
	select {
	case werr = <-done:
	case <-time.After(time.Duration(30+10*len(reqs)) * time.Second):
		// (a slow child — a store polling a stale lock, a loaded machine — is no verdict about the property)
		_ = cmd.Process.Kill()
		<-done
		return childRun{Exit: -3, Stderr: "HARNESS-SELFTEST child did not finish within its time allowance"}
	}
	r := childRun{Stderr: stderr.String()}
	if werr != nil {
		r.Exit = -1
		if ee, ok := werr.(*exec.ExitError); ok {
			r.Exit = ee.ExitCode()
		}
	}
	if json.Unmarshal(stdout.Bytes(), &r.Res) != nil {
		// tolerate other output in front of the answer: the answer is the last line
		r.Res = nil
		lines := strings.Split(strings.TrimRight(stdout.String(), "\n"), "\n")
		if json.Unmarshal([]byte(lines[len(lines)-1]), &r.Res) != nil {
			r.Res = nil
		}
	}
	return r
}

func b64(s string) string { return base64.StdEncoding.EncodeToString([]byte(s)) }

func entryName(id string) string { return fmt.Sprintf("%x.protobom", sha256.Sum256([]byte(id))) }

// snapshotTree lists every path under root (relative) with type and size.
func snapshotTree(root string) map[string]string {
	out := map[string]string{}
	_ = filepath.Walk(root, func(p string, info os.FileInfo, err error) error {
		if err != nil || p == root {
			return nil
		}
		rel, _ := filepath.Rel(root, p)
		kind := "f"
		if info.IsDir() {
			kind = "d"
		}
		out[rel] = kind
		return nil
	})
	return out
}

var c19IDs = []string{"a", "b", "./a", "a/", "a//b", "a/../b", "b/.", "../x", "/etc/passwd", "a/b", "..", ".", "é", "\x00", "a\nb", " ", strings.Repeat("L", 4096), "c:\\d", "%2e%2e%2f", "\xff\xfe",
	// identifiers that differ from another one only by surrounding white space
	"a ", " a", "b\t", "\u00a0b", "a\u3000", "\na"}

var c19LongIDs = []string{strings.Repeat("L", 4096), strings.Repeat("n", 256), strings.Repeat("d/", 1100), "pkg:" + strings.Repeat("é", 1500)}

func genStoreDoc(t *rapid.T, id string) *sbom.Document {
	// metadata populated by reflection, the graph well-formed (unique node ids, edges and roots among the nodes): a
	// store may validate what it persists
	doc := &sbom.Document{Metadata: &sbom.Metadata{}}
	hx.Populate(t, "md", doc.Metadata.ProtoReflect(), hx.PopOpts{Depth: 3, MaxRep: 3, FillProb: 55})
	doc.NodeList = hx.GenNodeList(t, "nl", hx.GraphOpts{WellFormed: true, Normalised: true, MaxNodes: 4, MaxEdges: 4})
	doc.Metadata.Id = id
	// "any document": one decoded from data of a newer schema carries fields this schema does not define
	// (protobuf keeps them as unknown fields; proto.Equal compares them)
	if rapid.IntRange(0, 4).Draw(t, "unknown") == 0 {
		hx.Class("document_with_unknown_fields")
		var raw []byte
		raw = protowire.AppendTag(raw, 1999, protowire.BytesType)
		raw = protowire.AppendString(raw, rapid.SampledFrom([]string{"x", "newer-schema", ""}).Draw(t, "unk"))
		switch k := rapid.IntRange(0, 2).Draw(t, "unkwhere"); {
		case k == 0 || doc.NodeList == nil || len(doc.NodeList.Nodes) == 0:
			doc.ProtoReflect().SetUnknown(raw)
		case k == 1:
			doc.Metadata.ProtoReflect().SetUnknown(raw)
		default:
			if n := doc.NodeList.Nodes[0]; n != nil {
				n.ProtoReflect().SetUnknown(raw)
			}
		}
	}
	return doc
}

func c19Property(env *storeEnv) func(t *rapid.T) {
	return func(t *rapid.T) {
		hx.Eval()
		T := env.newTree()
		base := filepath.Join(T, rapid.SampledFrom([]string{"base", "deep/er/base"}).Draw(t, "basepath"))
		baseRel, _ := filepath.Rel(T, base)
		// decoys next to the base directory: they must never change
		decoy := filepath.Join(T, "decoy.txt")
		_ = os.WriteFile(decoy, []byte("decoy"), 0o644)
		if env.asUser {
			_ = os.Chown(decoy, nobodyID, nobodyID)
		}
		model := map[string][]byte{} // id -> stored document bytes
		damaged := map[string]string{}
		tampered := map[string]bool{}    // ids whose entry file was removed behind the store's back
		entryPath := map[string]string{} // id -> file its first store created (found by diffing the tree, not by knowing the naming scheme)
		var hist []string
		logf := func(f string, a ...any) { hist = append(hist, fmt.Sprintf(f, a...)) }
		history := func() string { return "\n    " + strings.Join(hist, "\n    ") }
		overwrote, clobberConflict, faultedRetrieve := false, false, false
		baseBroken := ""

		checkChild := func(what string, r childRun, n int) {
			if r.Exit != 0 {
				t.Fatalf("%s: the process exited with status %d instead of returning (stderr: %s)%s", what, r.Exit, trunc(r.Stderr, 400), history())
			}
			if len(r.Res) != n {
				t.Fatalf("HARNESS-SELFTEST %s: expected %d results, got %d (stderr %s)", what, n, len(r.Res), r.Stderr)
			}
			for _, x := range r.Res {
				if x.Panic != "" {
					t.Fatalf("%s panicked: %s%s", what, x.Panic, history())
				}
			}
		}
		checkConfinement := func(after string) {
			snap := snapshotTree(T)
			for rel := range snap {
				if rel == "decoy.txt" {
					continue
				}
				if rel == baseRel || strings.HasPrefix(baseRel, rel+"/") {
					continue // the base directory and its parents
				}
				if strings.HasPrefix(rel, baseRel+"/") {
					continue // inside the configured directory (how entries are laid out there is the store's business)
				}
				t.Fatalf("after %s: path %q was created outside the configured directory%s", after, rel, history())
			}
			if b, err := os.ReadFile(decoy); err != nil || string(b) != "decoy" {
				t.Fatalf("after %s: a file outside the configured directory was modified%s", after, history())
			}
		}
		// verify: every id of the model retrieves its document, in one child process
		verify := func(after string) {
			if baseBroken == "a regular file" {
				return
			}
			ids := make([]string, 0, len(model))
			for id := range model {
				ids = append(ids, id)
			}
			sort.Strings(ids)
			if len(ids) == 0 {
				return
			}
			var enc []string
			for _, id := range ids {
				enc = append(enc, b64(id))
			}
			r := env.run([]childReq{{Op: "retrieve", Dir: base, IDs: enc}})
			checkChild("retrieve (verification after "+after+")", r, len(ids))
			for i, id := range ids {
				x := r.Res[i]
				if d := damaged[id]; d != "" {
					// corrupted entry: an error return or some document, never an empty one
					if x.Err == "" {
						raw, _ := base64.StdEncoding.DecodeString(x.Doc)
						if x.NilDoc || len(raw) == 0 {
							t.Fatalf("after %s: retrieving the %s entry %q returned an empty document without error%s", after, d, id, history())
						}
					}
					continue
				}
				if x.Err != "" {
					t.Fatalf("after %s: retrieving %q fails (%s) although it was stored%s", after, id, x.Err, history())
				}
				raw, _ := base64.StdEncoding.DecodeString(x.Doc)
				got, want := &sbom.Document{}, &sbom.Document{}
				_ = proto.Unmarshal(raw, got)
				_ = proto.Unmarshal(model[id], want)
				if !proto.Equal(got, want) {
					t.Fatalf("after %s: retrieving %q returns a document that differs from the one stored%s", after, id, history())
				}
			}
		}

		t.Repeat(map[string]func(*rapid.T){
			"store": func(t *rapid.T) {
				// a third of the stores target an identifier already stored (overwrite / no-clobber conflict), a
				// tenth the very long ones (entry names are digests: the length of the id must not matter)
				var id string
				switch k := rapid.IntRange(0, 9).Draw(t, "idclass"); {
				case k < 3 && len(model) > 0:
					known := make([]string, 0, len(model))
					for m := range model {
						known = append(known, m)
					}
					sort.Strings(known)
					id = rapid.SampledFrom(known).Draw(t, "id")
				case k == 3:
					id = rapid.SampledFrom(c19LongIDs).Draw(t, "id")
				default:
					id = rapid.SampledFrom(c19IDs).Draw(t, "id")
				}
				noClobber := rapid.Bool().Draw(t, "noclobber")
				doc := genStoreDoc(t, id)
				raw, merr := proto.Marshal(doc)
				if merr != nil {
					// an identifier that is not valid UTF-8 cannot be marshalled by protobuf: store must fail cleanly
					hx.Class("unmarshalable_document(id not UTF-8)")
					return
				}
				existed := model[id] != nil
				var treeBefore map[string]string
				if !existed {
					treeBefore = snapshotTree(T)
				}
				hx.ClassIf(len(id) > 255, "store:long_id")
				hx.ClassIf(len(id) > 255 && existed && noClobber, "store:long_id_noclobber_conflict")
				r := env.run([]childReq{{Op: "store", Dir: base, Doc: base64.StdEncoding.EncodeToString(raw), NoClobber: noClobber}})
				logf("store(id=%q, noclobber=%v) -> exit=%d %+v", trunc(id, 40), noClobber, r.Exit, r.Res)
				checkChild("store", r, 1)
				serr := r.Res[0].Err
				switch {
				case baseBroken == "a regular file":
					// a regular file sits where the directory belongs. A refusal is the expected outcome; a store that
					// reports success has to have made the place usable (clause 1 holds for it like for any other)
					if serr == "" {
						if st, err := os.Stat(base); err != nil || !st.IsDir() {
							t.Fatalf("store reported success although the configured directory is a regular file and still is%s", history())
						}
						hx.Class("store_replaced_the_file_in_the_way")
						baseBroken = ""
						model = map[string][]byte{id: raw}
						damaged = map[string]string{}
						entryPath = map[string]string{}
					}
				case baseBroken != "":
					// unwritable directory: creating or replacing an entry may or may not be possible (how entries are
					// laid out inside the directory is the store's business); a success is verified like any other
					if serr == "" && !(existed && noClobber && damaged[id] == "") {
						model[id] = raw
						delete(damaged, id)
					} else if serr == "" {
						t.Fatalf("store with no-clobber replaced the existing entry %q%s", id, history())
					}
				case existed && noClobber && damaged[id] == "":
					clobberConflict = true
					if serr == "" {
						t.Fatalf("store with no-clobber replaced the existing entry %q%s", id, history())
					}
				case damaged[id] == "directory" && serr != "":
					// (a directory sits where the entry belongs: refusing is fine, clearing it and storing is fine too)
				default:
					if serr != "" {
						if existed && noClobber {
							break // damaged entry exists: refusing is fine
						}
						// the statement promises what holds *after a successful store*: a store that refuses an unusual
						// identifier with an error return breaks no clause. Plain identifiers in a healthy directory
						// must be storable, otherwise nothing here would be exercised.
						if len(id) == 1 && id[0] >= 'a' && id[0] <= 'z' && damaged[id] == "" && !tampered[id] {
							t.Fatalf("store(%q) failed: %s%s", id, serr, history())
						}
						hx.Class("store_refused_with_error")
						break
					}
					if existed {
						overwrote = true
					} else {
						var created []string
						for rel, kind := range snapshotTree(T) {
							if _, was := treeBefore[rel]; !was && kind == "f" && strings.HasPrefix(rel, baseRel+"/") {
								created = append(created, rel)
							}
						}
						if len(created) == 1 {
							entryPath[id] = filepath.Join(T, created[0])
						}
					}
					model[id] = raw
					delete(damaged, id)
					// a quarter of the successful stores are followed at once by a no-clobber store of another
					// document under the same identifier: it must be refused and leave the entry as it is
					if rapid.IntRange(0, 3).Draw(t, "again") == 0 {
						other, oerr := proto.Marshal(genStoreDoc(t, id))
						if oerr == nil {
							r2 := env.run([]childReq{{Op: "store", Dir: base, Doc: base64.StdEncoding.EncodeToString(other), NoClobber: true}})
							logf("store again(id=%q, noclobber=true) -> exit=%d %+v", trunc(id, 40), r2.Exit, r2.Res)
							checkChild("store", r2, 1)
							clobberConflict = true
							hx.Class("no-clobber_conflict_immediate")
							hx.ClassIf(len(id) > 255, "store:long_id_noclobber_conflict")
							if r2.Res[0].Err == "" {
								t.Fatalf("store with no-clobber replaced the existing entry %q%s", id, history())
							}
						}
					}
				}
				checkConfinement("store")
				verify("store")
			},
			"storeInvalid": func(t *rapid.T) {
				kind := rapid.SampledFrom([]string{"empty_id", "nil_metadata", "nil_document"}).Draw(t, "kind")
				doc := genStoreDoc(t, "")
				raw, _ := proto.Marshal(doc)
				rq := childReq{Op: "store", Dir: base, Doc: base64.StdEncoding.EncodeToString(raw)}
				switch kind {
				case "nil_metadata":
					rq.NilMeta = true
				case "nil_document":
					rq.NilDoc = true
				}
				before := snapshotTree(T)
				r := env.run([]childReq{rq})
				logf("store(%s) -> exit=%d %+v", kind, r.Exit, r.Res)
				checkChild("store("+kind+")", r, 1)
				if r.Res[0].Err == "" {
					t.Fatalf("storing a document without identifier (%s) did not return an error%s", kind, history())
				}
				// (what a refused store leaves inside the configured directory — the directory itself, a staging area,
				// a lock — is not stated; confinement is)
				_ = before
				checkConfinement("store(" + kind + ")")
			},
			"retrieve": func(t *rapid.T) {
				id := rapid.SampledFrom(append([]string{"", "unknown-id"}, c19IDs...)).Draw(t, "id")
				r := env.run([]childReq{{Op: "retrieve", Dir: base, IDs: []string{b64(id)}}})
				logf("retrieve(%q) -> exit=%d err=%q", trunc(id, 40), r.Exit, func() string {
					if len(r.Res) > 0 {
						return r.Res[0].Err
					}
					return ""
				}())
				checkChild("retrieve", r, 1)
				x := r.Res[0]
				_, known := model[id]
				switch {
				case !known || baseBroken == "a regular file":
					faultedRetrieve = faultedRetrieve || baseBroken != ""
					if x.Err == "" {
						t.Fatalf("retrieving the unknown / unreachable entry %q returned no error (document empty=%v)%s", id, x.Doc == "", history())
					}
				case damaged[id] != "":
					faultedRetrieve = true
					if x.Err == "" {
						raw, _ := base64.StdEncoding.DecodeString(x.Doc)
						if x.NilDoc || len(raw) == 0 {
							t.Fatalf("retrieving the %s entry %q returned an empty document without error%s", damaged[id], id, history())
						}
					}
				default:
					if x.Err != "" {
						t.Fatalf("retrieving the stored entry %q failed: %s%s", id, x.Err, history())
					}
				}
				checkConfinement("retrieve")
			},
			"session": func(t *rapid.T) {
				// several calls on ONE backend object in one process, with the directory removed in between:
				// store(A); remove directory; store(B); retrieve(B); retrieve(A)
				if baseBroken != "" {
					t.Skip("base broken")
				}
				// (plain identifiers: a store may refuse unusual ones, which is not this action's subject)
				idA := rapid.SampledFrom([]string{"a", "b", "c", "d"}).Draw(t, "idA")
				idB := rapid.SampledFrom([]string{"a", "b", "c", "d"}).Draw(t, "idB")
				if idA == idB {
					t.Skip("same id")
				}
				// (documents of the current schema: what a store makes of fields it does not know is the store action's subject)
				rawA, errA := proto.Marshal(stripUnknown(genStoreDoc(t, idA)))
				rawB, errB := proto.Marshal(stripUnknown(genStoreDoc(t, idB)))
				if errA != nil || errB != nil {
					t.Skip("unmarshalable")
				}
				steps := []childReq{
					{Op: "store", Doc: base64.StdEncoding.EncodeToString(rawA)},
					{Op: "rmbase"},
					{Op: "store", Doc: base64.StdEncoding.EncodeToString(rawB)},
					{Op: "retrieve", IDs: []string{b64(idB)}},
					{Op: "retrieve", IDs: []string{b64(idA)}},
				}
				r := env.run([]childReq{{Op: "session", Dir: base, Steps: steps}})
				logf("session on one backend: store(%q); remove directory; store(%q); retrieve both -> exit=%d %+v", idA, idB, r.Exit, r.Res)
				checkChild("session", r, 5)
				if damaged[idA] == "" && r.Res[0].Err != "" {
					t.Fatalf("session: first store failed: %s%s", r.Res[0].Err, history())
				}
				if r.Res[1].Err != "" {
					// the directory could not be removed (a store may write-protect what it creates): the premise of this
					// action does not hold; bring the model up to date with what the stores reported and verify that
					hx.Class("session:directory_could_not_be_removed")
					if r.Res[0].Err == "" {
						model[idA] = rawA
						delete(damaged, idA)
					}
					if r.Res[2].Err == "" {
						model[idB] = rawB
						delete(damaged, idB)
					}
					checkConfinement("session")
					verify("session")
					return
				}
				if r.Res[2].Err != "" {
					if st, err := os.Stat(base); err != nil || !st.IsDir() {
						t.Fatalf("session: a store that finds its directory gone did not create it again: %s%s", r.Res[2].Err, history())
					}
					t.Fatalf("session: the directory was created again but is not usable: storing %q in it failed: %s%s", idB, r.Res[2].Err, history())
				}
				got := &sbom.Document{}
				want := &sbom.Document{}
				rawGot, _ := base64.StdEncoding.DecodeString(r.Res[3].Doc)
				_ = proto.Unmarshal(rawGot, got)
				_ = proto.Unmarshal(rawB, want)
				if r.Res[3].Err != "" || !proto.Equal(got, want) {
					t.Fatalf("session: the document stored after the directory was re-created is not retrieved (err=%q)%s", r.Res[3].Err, history())
				}
				if r.Res[4].Err == "" {
					t.Fatalf("session: an entry that was removed together with the directory is still retrieved%s", history())
				}
				model = map[string][]byte{idB: rawB}
				damaged = map[string]string{}
				checkConfinement("session")
				verify("session")
			},
			"fault": func(t *rapid.T) {
				if baseBroken != "" {
					t.Skip("base already broken")
				}
				ids := make([]string, 0, len(model))
				for id := range model {
					ids = append(ids, id)
				}
				sort.Strings(ids)
				kind := rapid.SampledFrom([]string{"delete", "truncate_zero", "junk", "directory", "unreadable", "remove_base", "base_is_file", "base_unwritable"}).Draw(t, "fault")
				switch kind {
				case "remove_base":
					_ = os.RemoveAll(base)
					model = map[string][]byte{}
					damaged = map[string]string{}
					logf("fault: base directory removed")
					return
				case "base_is_file":
					_ = os.RemoveAll(base)
					_ = os.MkdirAll(filepath.Dir(base), 0o755)
					_ = os.WriteFile(base, []byte("i am a file"), 0o644)
					baseBroken = "a regular file"
					logf("fault: base is a regular file")
					return
				case "base_unwritable":
					if !env.asUser {
						t.Skip("needs an unprivileged child")
					}
					if _, err := os.Stat(base); err != nil {
						t.Skip("no base yet")
					}
					_ = os.Chmod(base, 0o555)
					_ = os.Chown(base, 0, 0)
					baseBroken = "not writable"
					logf("fault: base directory made unwritable")
					// reads must still work: verify before marking broken for stores only
					return
				}
				if len(ids) == 0 {
					t.Skip("nothing stored")
				}
				id := rapid.SampledFrom(ids).Draw(t, "victim")
				p := entryPath[id]
				if p == "" {
					p = filepath.Join(base, entryName(id))
				}
				if st, err := os.Lstat(p); err != nil || !st.Mode().IsRegular() || damaged[id] == "unreadable" {
					t.Skip("entry is not an ordinary file any more")
				}
				switch kind {
				case "delete":
					_ = os.Remove(p)
					delete(model, id)
					delete(damaged, id)
					tampered[id] = true // (a store that keeps an index may regard the identifier as damaged from now on)
				case "truncate_zero":
					_ = os.Truncate(p, 0)
					damaged[id] = "empty"
				case "junk":
					_ = os.WriteFile(p, []byte("\xff\xff\xff\xffnot a protobuf\x00\x01"), 0o644)
					damaged[id] = "corrupted"
				case "directory":
					_ = os.Remove(p)
					_ = os.Mkdir(p, 0o755)
					if env.asUser {
						_ = os.Chown(p, nobodyID, nobodyID)
					}
					damaged[id] = "directory"
				case "unreadable":
					if !env.asUser {
						t.Skip("needs an unprivileged child")
					}
					_ = os.Chmod(p, 0o000)
					_ = os.Chown(p, 0, 0)
					damaged[id] = "unreadable"
				}
				logf("fault: %s on entry of %q", kind, trunc(id, 40))
			},
			"": func(t *rapid.T) {},
		})
		hx.ClassIf(overwrote, "overwrite")
		hx.ClassIf(clobberConflict, "no-clobber_conflict")
		hx.ClassIf(faultedRetrieve, "faulted_retrieve")
		hx.ClassIf(env.asUser, "unprivileged_child")
		if overwrote || clobberConflict || faultedRetrieve {
			if hx.NonTrivial(hx.Digest(strings.Join(hist, "|"))) {
				hx.Sample(func() any { return append([]string{}, hist...) })
			}
		}
		_ = filepath.Walk(T, func(p string, info os.FileInfo, err error) error {
			if err == nil {
				_ = os.Chmod(p, 0o755)
			}
			return nil
		})
		_ = os.RemoveAll(T)
	}
}

func TestC19(t *testing.T) {
	env := newStoreEnv(t)
	defer env.cleanup()
	hx.Info("child_runs_as_uid", map[bool]int{true: nobodyID, false: os.Geteuid()}[env.asUser])
	rapid.Check(t, c19Property(env))
}

// stripUnknown removes unknown fields at every level of the document.
func stripUnknown(d *sbom.Document) *sbom.Document {
	var walk func(m protoreflect.Message)
	walk = func(m protoreflect.Message) {
		m.SetUnknown(nil)
		m.Range(func(fd protoreflect.FieldDescriptor, v protoreflect.Value) bool {
			switch {
			case fd.IsList() && fd.Message() != nil:
				for i := 0; i < v.List().Len(); i++ {
					walk(v.List().Get(i).Message())
				}
			case fd.IsMap() && fd.MapValue().Message() != nil:
				v.Map().Range(func(_ protoreflect.MapKey, mv protoreflect.Value) bool { walk(mv.Message()); return true })
			case !fd.IsList() && !fd.IsMap() && fd.Message() != nil:
				walk(v.Message())
			}
			return true
		})
	}
	walk(d.ProtoReflect())
	return d
}
