package props

import (
	"bytes"
	"fmt"
	"os"
	"reflect"
	"sort"
	"strings"
	"sync"
	"testing"

	"github.com/protobom/protobom/pkg/formats"
	"github.com/protobom/protobom/pkg/sbom"
	"github.com/protobom/protobom/pkg/writer"
	"google.golang.org/protobuf/proto"
	"google.golang.org/protobuf/reflect/protoreflect"
	"pgregory.net/rapid"
	"verif/harness/hx"
)

// ---- classification of the public operations (checked for completeness by reflection) --------------

var roMethods = map[string]bool{
	"Equal": true, "Checksum": true, "Diff": true, "Copy": true, "Purl": true, "HashesMatch": true, "PointsTo": true,
	"ToSPDX2ClientString": true, "ToSPDX2ClientOrg": true, "GetRootNodes": true, "GetEdgeByType": true, "GetMatchingNode": true,
	"NodeGraph": true, "NodeSiblings": true, "NodeDescendants": true, "Union": true, "Intersect": true, "String": true,
	"GetNodeByID": true, "GetNodesByName": true, "GetNodesByIdentifier": true, "GetNodesByPurlType": true,
}

var mutMethods = map[string]bool{
	"Add": true, "AddEdge": true, "AddNode": true, "AddRootNode": true, "RemoveNodes": true, "RelateNodeAtID": true,
	"RelateNodeListAtID": true, "Update": true, "Augment": true, "AddHash": true, "AddDestinationById": true, "Reset": true,
}

var infraMethods = map[string]bool{"ProtoReflect": true, "ProtoMessage": true, "Descriptor": true}

func classifyMethod(name string) string {
	switch {
	case infraMethods[name]:
		return "infra"
	case mutMethods[name]:
		return "mut"
	case roMethods[name] || strings.HasPrefix(name, "Get"):
		return "ro"
	}
	return ""
}

var c11ReceiverTypes = []reflect.Type{
	reflect.TypeOf(&sbom.Document{}), reflect.TypeOf(&sbom.NodeList{}), reflect.TypeOf(&sbom.Node{}), reflect.TypeOf(&sbom.Edge{}),
	reflect.TypeOf(&sbom.Person{}), reflect.TypeOf(&sbom.ExternalReference{}), reflect.TypeOf(&sbom.Metadata{}),
	reflect.TypeOf(&sbom.Tool{}), reflect.TypeOf(&sbom.DocumentType{}),
}

// unclassifiedMethods lists exported methods the harness does not know (a method added later).
func unclassifiedMethods() []string {
	var out []string
	for _, rt := range c11ReceiverTypes {
		for i := 0; i < rt.NumMethod(); i++ {
			if classifyMethod(rt.Method(i).Name) == "" {
				out = append(out, rt.String()+"."+rt.Method(i).Name)
			}
		}
	}
	return out
}

// ---- operand generation ------------------------------------------------------------------------------

func c11Text() *rapid.Generator[string] {
	return rapid.OneOf(rapid.SampledFrom([]string{"a", "b", "c", "d", "e", "n1", "pkg:npm/a@1", "h1", "MIT", "", " ", ""}), hx.TextPlainNE())
}

func c11Node(t *rapid.T, id string) *sbom.Node {
	n := &sbom.Node{}
	hx.Populate(t, "n["+id+"]", n.ProtoReflect(), hx.PopOpts{Text: c11Text(), Depth: 3, MaxRep: 3, FillProb: 45, KeyRange: 4})
	n.Id = id
	return n
}

// c11Doc builds a shared document: unsorted roots, unsorted edge targets, persons with contacts.
func c11Doc(t *rapid.T) *sbom.Document {
	nl := hx.GenNodeList(t, "G", hx.GraphOpts{WellFormed: rapid.IntRange(0, 3).Draw(t, "wf") > 0, NodeGen: c11Node, MaxEdges: 6})
	md := &sbom.Metadata{}
	hx.Populate(t, "md", md.ProtoReflect(), hx.PopOpts{Text: c11Text(), Depth: 2, FillProb: 50,
		SkipFields: map[protoreflect.FullName]bool{"protobom.protobom.Metadata.documentTypes": true}})
	md.Id = "urn:uuid:" + rapid.SampledFrom([]string{"1", "2"}).Draw(t, "docid")
	md.Version = rapid.SampledFrom([]string{"1", "7", "x"}).Draw(t, "docver")
	for i := rapid.IntRange(0, 2).Draw(t, "ndt"); i > 0; i-- {
		ty := sbom.DocumentType_SBOMType(rapid.IntRange(0, 8).Draw(t, "dtt"))
		name, desc := "custom", "desc"
		dt := &sbom.DocumentType{Name: &name, Description: &desc}
		if rapid.Bool().Draw(t, "dtHasType") && ty != sbom.DocumentType_RUNTIME {
			dt.Type = &ty
		}
		md.DocumentTypes = append(md.DocumentTypes, dt)
	}
	return &sbom.Document{Metadata: md, NodeList: nl}
}

// argFor produces an argument of the requested Go type; shared parts of doc are used sometimes.
func argFor(t *rapid.T, doc *sbom.Document, at reflect.Type, label string) (reflect.Value, bool) {
	pickShared := rapid.Bool().Draw(t, label+".shared")
	switch at {
	case reflect.TypeOf(&sbom.Node{}):
		if pickShared && len(doc.NodeList.Nodes) > 0 {
			return reflect.ValueOf(doc.NodeList.Nodes[rapid.IntRange(0, len(doc.NodeList.Nodes)-1).Draw(t, label+".i")]), true
		}
		return reflect.ValueOf(c11Node(t, rapid.SampledFrom(hx.SmallIDs).Draw(t, label+".id"))), true
	case reflect.TypeOf(&sbom.NodeList{}):
		if pickShared {
			return reflect.ValueOf(doc.NodeList), true
		}
		return reflect.ValueOf(hx.GenNodeList(t, label, hx.GraphOpts{NodeGen: c11Node})), true
	case reflect.TypeOf(&sbom.Edge{}):
		if pickShared && len(doc.NodeList.Edges) > 0 {
			return reflect.ValueOf(doc.NodeList.Edges[rapid.IntRange(0, len(doc.NodeList.Edges)-1).Draw(t, label+".i")]), true
		}
		return reflect.ValueOf(&sbom.Edge{From: "a", Type: sbom.Edge_contains, To: []string{"c", "b"}}), true
	case reflect.TypeOf(&sbom.Person{}):
		return reflect.ValueOf(&sbom.Person{Name: "p", Contacts: []*sbom.Person{{Name: "c"}}}), true
	case reflect.TypeOf(&sbom.ExternalReference{}):
		return reflect.ValueOf(&sbom.ExternalReference{Url: "u", Hashes: map[int32]string{1: "h"}}), true
	case reflect.TypeOf(""):
		return reflect.ValueOf(rapid.SampledFrom([]string{"a", "b", "c", "d", "e", "zz", "", "n1", "npm", "purl", "pkg:npm/a@1"}).Draw(t, label+".s")), true
	case reflect.TypeOf(0):
		return reflect.ValueOf(rapid.IntRange(1, 4).Draw(t, label+".n")), true
	case reflect.TypeOf(sbom.Edge_contains):
		return reflect.ValueOf(rapid.SampledFrom([]sbom.Edge_Type{sbom.Edge_contains, sbom.Edge_dependsOn}).Draw(t, label+".ty")), true
	case reflect.TypeOf(map[int32]string{}):
		return reflect.ValueOf(map[int32]string{1: rapid.SampledFrom([]string{"h1", "a"}).Draw(t, label+".h"), 2: "x"}), true
	case reflect.TypeOf(&sbom.Document{}):
		if pickShared {
			return reflect.ValueOf(doc), true
		}
		return reflect.ValueOf(proto.Clone(doc)), true
	case reflect.TypeOf(true):
		return reflect.ValueOf(rapid.Bool().Draw(t, label+".b")), true
	}
	// any enum of the schema (named int32 type), any other message of the schema
	if at.Kind() == reflect.Int32 && at.PkgPath() != "" {
		// only values the enum defines (a parameter documented as "a defined value" may not tolerate others)
		if e, ok := reflect.Zero(at).Interface().(protoreflect.Enum); ok {
			vals := e.Descriptor().Values()
			n := vals.Get(rapid.IntRange(0, vals.Len()-1).Draw(t, label+".enum")).Number()
			return reflect.ValueOf(int32(n)).Convert(at), true
		}
		return reflect.Value{}, false
	}
	if at.Kind() == reflect.Ptr && at.Implements(reflect.TypeOf((*proto.Message)(nil)).Elem()) {
		m := reflect.New(at.Elem()).Interface().(proto.Message)
		// (a type that is a message only through an embedded pointer has no valid reflection view when freshly made)
		if pr := safeProtoReflect(m); pr != nil && pr.IsValid() {
			hx.Populate(t, label, pr, hx.PopOpts{Text: c11Text(), Depth: 2, MaxRep: 2, FillProb: 50})
			return reflect.ValueOf(m), true
		}
		return reflect.Value{}, false
	}
	return reflect.Value{}, false
}

func safeProtoReflect(m proto.Message) (pr protoreflect.Message) {
	defer func() {
		if recover() != nil {
			pr = nil
		}
	}()
	return m.ProtoReflect()
}

// receivers enumerates every message reachable in the document that has methods.
func c11Receivers(doc *sbom.Document) []reflect.Value {
	out := []reflect.Value{reflect.ValueOf(doc), reflect.ValueOf(doc.NodeList), reflect.ValueOf(doc.Metadata)}
	for _, n := range doc.NodeList.Nodes {
		out = append(out, reflect.ValueOf(n))
		for _, p := range append(append([]*sbom.Person{}, n.Suppliers...), n.Originators...) {
			out = append(out, reflect.ValueOf(p))
			for _, c := range p.Contacts {
				out = append(out, reflect.ValueOf(c))
			}
		}
		for _, e := range n.ExternalReferences {
			out = append(out, reflect.ValueOf(e))
		}
	}
	for _, e := range doc.NodeList.Edges {
		out = append(out, reflect.ValueOf(e))
	}
	for _, p := range doc.Metadata.Authors {
		out = append(out, reflect.ValueOf(p))
	}
	for _, tl := range doc.Metadata.Tools {
		out = append(out, reflect.ValueOf(tl))
	}
	for _, dt := range doc.Metadata.DocumentTypes {
		out = append(out, reflect.ValueOf(dt))
	}
	return out
}

type c11Call struct {
	recv   reflect.Value
	method reflect.Method
	args   []reflect.Value
	desc   string
}

// run calls the method. A panic of the operation is no modification of an operand (the statement is about the operands'
// state): it is counted and the snapshots are compared as after any other call.
func (c c11Call) run() {
	defer func() {
		if r := recover(); r != nil {
			hx.Class("operation_panicked:" + c.desc)
		}
	}()
	c.method.Func.Call(append([]reflect.Value{c.recv}, c.args...))
}

// c11Calls builds the calls of every read-only method on recv with generated arguments.
func c11Calls(t *rapid.T, doc *sbom.Document, recv reflect.Value, label string) []c11Call {
	var out []c11Call
	rt := recv.Type()
	for i := 0; i < rt.NumMethod(); i++ {
		m := rt.Method(i)
		if classifyMethod(m.Name) != "ro" {
			continue
		}
		var args []reflect.Value
		ok := true
		nin := m.Type.NumIn()
		if m.Type.IsVariadic() {
			nin-- // called without the variadic arguments
		}
		for a := 1; a < nin; a++ {
			v, known := argFor(t, doc, m.Type.In(a), fmt.Sprintf("%s.%s.%d", label, m.Name, a))
			if !known {
				ok = false
				break
			}
			args = append(args, v)
		}
		if !ok {
			// a method this harness cannot call (a parameter type it has no generator for) is left out and counted: that is
			// a gap of the check on this tree, not a statement about the property
			hx.Class("read-only_method_not_exercised(no argument generator):" + rt.Elem().Name() + "." + m.Name)
			continue
		}
		out = append(out, c11Call{recv: recv, method: m, args: args, desc: fmt.Sprintf("(%s).%s", rt.Elem().Name(), m.Name)})
	}
	return out
}

func msgOf(v reflect.Value) proto.Message {
	if !v.IsValid() || v.Kind() != reflect.Ptr || v.IsNil() {
		return nil
	}
	m, _ := v.Interface().(proto.Message)
	return m
}

var c11Formats = []formats.Format{formats.CDX10JSON, formats.CDX11JSON, formats.CDX12JSON, formats.CDX13JSON, formats.CDX14JSON, formats.CDX15JSON, formats.SPDX23JSON}

func c11Serialize(doc *sbom.Document, f formats.Format) {
	defer func() {
		if r := recover(); r != nil {
			hx.Class("serializer_panicked(C07's clause)")
		}
	}()
	var buf bytes.Buffer
	_ = writer.New().WriteStreamWithOptions(doc, nopCloser{&buf}, &writer.Options{Format: f})
}

func c11aProperty(t *rapid.T) {
	hx.Eval()
	doc := c11Doc(t)
	// make sure the mutation-revealing shapes are present
	unsortedRoots := len(doc.NodeList.RootElements) > 1 && !sort.StringsAreSorted(doc.NodeList.RootElements)
	unsortedTargets, contacts := false, false
	for _, e := range doc.NodeList.Edges {
		if !sort.StringsAreSorted(e.To) {
			unsortedTargets = true
		}
	}
	for _, n := range doc.NodeList.Nodes {
		for _, p := range append(append([]*sbom.Person{}, n.Suppliers...), n.Originators...) {
			if len(p.Contacts) > 0 {
				contacts = true
			}
		}
	}
	hx.ClassIf(unsortedRoots, "unsorted_roots")
	hx.ClassIf(unsortedTargets, "unsorted_edge_targets")
	hx.ClassIf(contacts, "person_with_contacts")
	if unsortedRoots || unsortedTargets || contacts {
		if hx.NonTrivial(hx.Digest(hx.Snapshot(doc))) {
			hx.Sample(func() any {
				return map[string]any{"node_list": hx.DescribeNL(doc.NodeList), "unsorted_roots": unsortedRoots, "unsorted_targets": unsortedTargets, "contacts": contacts}
			})
		}
	}

	before := hx.Snapshot(doc)
	beforeText := hx.RefKeyOrdered(doc, "")
	for ri, recv := range c11Receivers(doc) {
		for _, c := range c11Calls(t, doc, recv, fmt.Sprintf("r%d", ri)) {
			var argSnaps []string
			for _, a := range c.args {
				if m := msgOf(a); m != nil {
					argSnaps = append(argSnaps, hx.Snapshot(m))
				} else {
					argSnaps = append(argSnaps, fmt.Sprintf("%v", a))
				}
			}
			c.run()
			hx.Class("op:" + c.desc)
			if after := hx.Snapshot(doc); after != before {
				t.Fatalf("%s modified the shared document (receiver or an operand that is part of it):\n before=%s\n after =%s", c.desc, beforeText, hx.RefKeyOrdered(doc, after))
			}
			for i, a := range c.args {
				var now string
				if m := msgOf(a); m != nil {
					now = hx.Snapshot(m)
				} else {
					now = fmt.Sprintf("%v", a)
				}
				if now != argSnaps[i] {
					t.Fatalf("%s modified its argument #%d (%s)", c.desc, i+1, a.Type())
				}
			}
		}
	}
	for _, f := range c11Formats {
		c11Serialize(doc, f)
		hx.Class("op:serialize")
		if hx.Snapshot(doc) != before {
			t.Fatalf("serializing to %s modified the document", f)
		}
	}
}

func TestC11a(t *testing.T) {
	// methods this harness does not know (added after it was written) are neither called nor a reason to give up:
	// whether they are read-only cannot be told from the name
	for _, u := range unclassifiedMethods() {
		hx.Class("method_not_classified(not exercised):" + u)
	}
	rapid.Check(t, c11aProperty)
}

// ---- (b) concurrent read-only operations on one shared document, built with -race --------------------

func c11bProperty(t *rapid.T) {
	hx.Eval()
	doc := c11Doc(t)
	recvs := c11Receivers(doc)
	ng := rapid.IntRange(2, 8).Draw(t, "goroutines")
	progs := make([][]c11Call, ng)
	var desc []string
	for g := 0; g < ng; g++ {
		nops := rapid.IntRange(3, 10).Draw(t, "nops")
		for o := 0; o < nops; o++ {
			if rapid.IntRange(0, 9).Draw(t, "ser") == 0 {
				f := rapid.SampledFrom(c11Formats).Draw(t, "fmt")
				progs[g] = append(progs[g], c11Call{desc: "serialize:" + string(f)})
				continue
			}
			recv := recvs[rapid.IntRange(0, len(recvs)-1).Draw(t, "recv")]
			calls := c11Calls(t, doc, recv, fmt.Sprintf("g%d.%d", g, o))
			if len(calls) == 0 {
				continue
			}
			progs[g] = append(progs[g], calls[rapid.IntRange(0, len(calls)-1).Draw(t, "call")])
		}
		var ds []string
		for _, c := range progs[g] {
			ds = append(ds, c.desc)
		}
		desc = append(desc, fmt.Sprintf("g%d: %s", g, strings.Join(ds, " ; ")))
	}
	program := fmt.Sprintf("shared document: %s\n%s", hx.DescribeNL(doc.NodeList), strings.Join(desc, "\n"))
	hx.Journal([]byte(program))
	if hx.NonTrivial(hx.Digest(program)) {
		hx.Sample(func() any { return program })
	}
	before := hx.Snapshot(doc)
	start := make(chan struct{})
	var wg sync.WaitGroup
	for g := 0; g < ng; g++ {
		wg.Add(1)
		go func(p []c11Call) {
			defer wg.Done()
			<-start
			for _, c := range p {
				if strings.HasPrefix(c.desc, "serialize:") {
					c11Serialize(doc, formats.Format(strings.TrimPrefix(c.desc, "serialize:")))
				} else {
					c.run()
				}
			}
		}(progs[g])
	}
	close(start)
	wg.Wait()
	if hx.Snapshot(doc) != before {
		t.Fatalf("concurrent read-only operations changed the shared document:\n%s", program)
	}
}

func TestC11b(t *testing.T) { rapid.Check(t, c11bProperty) }

var _ = os.Getenv
