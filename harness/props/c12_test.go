package props

import (
	"fmt"
	"reflect"
	"strings"
	"testing"

	"github.com/protobom/protobom/pkg/sbom"
	"google.golang.org/protobuf/proto"
	"pgregory.net/rapid"
	"verif/harness/hx"
)

// every message type of the schema; those with a Copy method are checked
// the five kinds of value the statement names (a Copy method on any other type is not covered by it)
var c12Types = []proto.Message{&sbom.Node{}, &sbom.Edge{}, &sbom.ExternalReference{}, &sbom.Person{}, &sbom.NodeList{}}

// spareCap re-allocates every slice reachable from v (Go reflection) with spare capacity, which is what
// exposes append aliasing.
func spareCap(v reflect.Value) {
	switch v.Kind() {
	case reflect.Ptr:
		if !v.IsNil() {
			spareCap(v.Elem())
		}
	case reflect.Struct:
		for i := 0; i < v.NumField(); i++ {
			if v.Type().Field(i).IsExported() {
				spareCap(v.Field(i))
			}
		}
	case reflect.Slice:
		if v.IsNil() || !v.CanSet() {
			return
		}
		ns := reflect.MakeSlice(v.Type(), v.Len(), v.Len()+3)
		reflect.Copy(ns, v)
		v.Set(ns)
		for i := 0; i < v.Len(); i++ {
			spareCap(v.Index(i))
		}
	case reflect.Map:
		for _, k := range v.MapKeys() {
			e := v.MapIndex(k)
			if e.Kind() == reflect.Ptr {
				spareCap(e)
			}
		}
	}
}

// emptiedWithCap replaces every nil or empty slice reachable from v by an empty one that still owns a backing array
// (the shape left by `list = list[:0]` or `make([]T, 0, n)`): a copy that hands such a slice over as it is shares
// the array, and two appends then overwrite one another.
func emptiedWithCap(v reflect.Value) {
	switch v.Kind() {
	case reflect.Ptr:
		if !v.IsNil() {
			emptiedWithCap(v.Elem())
		}
	case reflect.Struct:
		for i := 0; i < v.NumField(); i++ {
			if v.Type().Field(i).IsExported() {
				emptiedWithCap(v.Field(i))
			}
		}
	case reflect.Slice:
		if !v.CanSet() {
			return
		}
		if v.Len() == 0 {
			v.Set(reflect.MakeSlice(v.Type(), 0, 3))
			return
		}
		for i := 0; i < v.Len(); i++ {
			emptiedWithCap(v.Index(i))
		}
	case reflect.Map:
		for _, k := range v.MapKeys() {
			if e := v.MapIndex(k); e.Kind() == reflect.Ptr {
				emptiedWithCap(e)
			}
		}
	}
}

// emptyNonNil replaces every nil slice and map reachable from v by an empty non-nil one (the shape the
// constructors NewNode / NewNodeList / NewDocument produce); the content is unchanged.
func emptyNonNil(v reflect.Value) {
	switch v.Kind() {
	case reflect.Ptr:
		if !v.IsNil() {
			emptyNonNil(v.Elem())
		}
	case reflect.Struct:
		for i := 0; i < v.NumField(); i++ {
			if v.Type().Field(i).IsExported() {
				emptyNonNil(v.Field(i))
			}
		}
	case reflect.Slice:
		if !v.CanSet() {
			return
		}
		if v.IsNil() {
			v.Set(reflect.MakeSlice(v.Type(), 0, 0))
			return
		}
		for i := 0; i < v.Len(); i++ {
			emptyNonNil(v.Index(i))
		}
	case reflect.Map:
		if v.CanSet() && v.IsNil() {
			v.Set(reflect.MakeMap(v.Type()))
		}
	}
}

// sharePersonPointers makes one *Person reachable twice inside a contact tree (a sibling's contact points at an
// earlier sibling): a shape programmatic construction produces and protobuf decoding never does. No cycle is created.
func sharePersonPointers(lists ...[]*sbom.Person) bool {
	for _, l := range lists {
		for _, top := range l {
			if top == nil || len(top.Contacts) < 2 {
				continue
			}
			a, b := top.Contacts[0], top.Contacts[1]
			if a == nil || b == nil || a == b {
				continue
			}
			if len(a.Contacts) == 0 {
				a.Contacts = []*sbom.Person{{Name: "shared-leaf"}}
			}
			b.Contacts = append([]*sbom.Person{a}, b.Contacts...)
			return true
		}
	}
	return false
}

func personLists(m proto.Message) [][]*sbom.Person {
	switch x := m.(type) {
	case *sbom.Node:
		return [][]*sbom.Person{x.Suppliers, x.Originators}
	case *sbom.Person:
		return [][]*sbom.Person{{x}}
	case *sbom.NodeList:
		var out [][]*sbom.Person
		for _, n := range x.Nodes {
			out = append(out, n.Suppliers, n.Originators)
		}
		return out
	}
	return nil
}

// mutateAll applies every leaf mutator of a (one after the other) and reports the first that changes
// b's snapshot. Appends within spare capacity are exercised by the "[+]" leaves.
func mutateAll(t *rapid.T, a, b proto.Message) string {
	snap := hx.Snapshot(b)
	for _, lf := range hx.Leaves(a.ProtoReflect(), "") {
		lf.Apply(t)
		if hx.Snapshot(b) != snap {
			return lf.Path
		}
	}
	// Go-level in-place writes through slices (list.Set on protoreflect wrappers replaces elements in the
	// backing array; also overwrite string elements directly)
	return ""
}

func c12Independent(t *rapid.T, what string, x, y proto.Message) {
	if al := hx.Aliases(x, y); len(al) > 0 {
		t.Fatalf("%s: shared mutable state: %s", what, strings.Join(al[:min(len(al), 4)], "; "))
	}
}

func min(a, b int) int {
	if a < b {
		return a
	}
	return b
}

func c12CopyProperty(t *rapid.T) {
	hx.Eval()
	ti := rapid.IntRange(0, len(c12Types)-1).Draw(t, "type")
	src := c12Types[ti].ProtoReflect().New().Interface()
	hx.Populate(t, "src", src.ProtoReflect(), hx.PopOpts{Text: c11Text(), Depth: 3, MaxRep: 3, FillProb: 60, KeyRange: 5})
	if nl, ok := src.(*sbom.NodeList); ok {
		// ids unique so that list equality is meaningful
		for i, n := range nl.Nodes {
			n.Id = fmt.Sprintf("n%d", i)
		}
	}
	if rapid.Bool().Draw(t, "spare") {
		spareCap(reflect.ValueOf(src))
	}
	if rapid.IntRange(0, 2).Draw(t, "sharePtr") == 0 && sharePersonPointers(personLists(src)...) {
		hx.Class("person_pointer_reachable_twice")
	}
	switch rapid.IntRange(0, 5).Draw(t, "emptyNonNil") {
	case 0, 1:
		emptyNonNil(reflect.ValueOf(src))
		hx.Class("empty_non-nil_collections")
	case 2, 3:
		emptiedWithCap(reflect.ValueOf(src))
		hx.Class("empty_collections_with_spare_capacity")
	}
	name := string(src.ProtoReflect().Descriptor().Name())
	m := reflect.ValueOf(src).MethodByName("Copy")
	if !m.IsValid() || m.Type().NumIn() != 0 || m.Type().NumOut() != 1 || m.Type().Out(0) != reflect.TypeOf(src) {
		hx.Class("no_Copy_method_of_the_expected_shape:" + name)
		return
	}
	hx.Class("Copy:" + name)
	before := hx.Snapshot(src)
	cp := m.Call(nil)[0].Interface().(proto.Message)
	hx.ClassIf(hx.Snapshot(src) != before, "copy_changed_the_representation_of_its_source(C11's clause)")
	// "compares equal to its source": by the type's own Equal(other) bool where it has one of that shape, otherwise by
	// content (dates to the second, as everywhere in the library)
	eq := reflect.ValueOf(cp).MethodByName("Equal")
	if eq.IsValid() && eq.Type().NumIn() == 1 && eq.Type().In(0) == reflect.TypeOf(src) && eq.Type().NumOut() == 1 && eq.Type().Out(0).Kind() == reflect.Bool {
		if !eq.Call([]reflect.Value{reflect.ValueOf(src)})[0].Bool() || !reflect.ValueOf(src).MethodByName("Equal").Call([]reflect.Value{reflect.ValueOf(cp)})[0].Bool() {
			t.Fatalf("%s.Copy does not compare Equal to its source: %s", name, hx.RefKey(src, false))
		}
	} else if hx.RefKey(cp, true) != hx.RefKey(src, true) {
		t.Fatalf("%s.Copy differs from its source:\n src =%s\n copy=%s", name, hx.RefKey(src, true), hx.RefKey(cp, true))
	}
	rich := len(hx.Leaves(src.ProtoReflect(), "")) > 12
	if rich {
		if hx.NonTrivial(hx.Digest(name, hx.Snapshot(src))) {
			hx.Sample(func() any { return map[string]string{"type": name, "value": hx.RefKey(src, false)} })
		}
	}
	c12Independent(t, name+".Copy vs source", cp, src)
	if p := mutateAll(t, proto.Clone(cp), src); p != "" {
		t.Fatalf("HARNESS-SELFTEST mutating a clone changed the source at %s", p)
	}
	if p := mutateAll(t, cp, src); p != "" {
		t.Fatalf("mutating %s of the copy of a %s changed the source", p, name)
	}
	cp2 := m.Call(nil)[0].Interface().(proto.Message)
	if p := mutateAll(t, src, cp2); p != "" {
		t.Fatalf("mutating %s of the source of a %s changed its copy", p, name)
	}
}

func TestC12Copy(t *testing.T) { rapid.Check(t, c12CopyProperty) }

// ---- union / intersection results vs operands, and histories sharing an operand -----------------------

func c12Operand(t *rapid.T, label string) *sbom.NodeList {
	nl := hx.GenNodeList(t, label, hx.GraphOpts{WellFormed: rapid.IntRange(0, 3).Draw(t, label+".wf") > 0, NodeGen: c11Node, MaxEdges: 5})
	if rapid.Bool().Draw(t, label+".sparecap") {
		spareCap(reflect.ValueOf(nl))
	}
	if rapid.IntRange(0, 2).Draw(t, label+".emptiedcap") == 0 {
		emptiedWithCap(reflect.ValueOf(nl))
		hx.Class("empty_collections_with_spare_capacity")
	}
	if rapid.IntRange(0, 2).Draw(t, label+".sharePtr") == 0 && sharePersonPointers(personLists(nl)...) {
		hx.Class("person_pointer_reachable_twice")
	}
	return nl
}

func c12HistoryProperty(t *rapid.T) {
	hx.Eval()
	ops := map[string]*sbom.NodeList{"A": c12Operand(t, "A"), "B": c12Operand(t, "B"), "C": c12Operand(t, "C")}
	names := []string{"A", "B", "C"}
	opSnap := map[string]string{}
	for _, n := range names {
		opSnap[n] = hx.Snapshot(ops[n])
	}
	type result struct {
		desc string
		nl   *sbom.NodeList
		snap string
		x, y string
	}
	var results []result
	var hist []string
	sharedOperand := false
	used := map[string]int{}
	checkAll := func(after string) {
		for _, n := range names {
			if hx.Snapshot(ops[n]) != opSnap[n] {
				t.Fatalf("after %s: operand %s changed\n history: %s", after, n, strings.Join(hist, " ; "))
			}
		}
		for _, r := range results {
			if hx.Snapshot(r.nl) != r.snap {
				t.Fatalf("after %s: the earlier result %s changed\n history: %s", after, r.desc, strings.Join(hist, " ; "))
			}
		}
	}
	steps := rapid.IntRange(2, 4).Draw(t, "steps")
	for s := 0; s < steps; s++ {
		x := rapid.SampledFrom(names).Draw(t, "x")
		y := rapid.SampledFrom(names).Draw(t, "y")
		op := rapid.SampledFrom([]string{"Union", "Intersect", "Copy"}).Draw(t, "op")
		var r *sbom.NodeList
		var desc string
		switch op {
		case "Union":
			r, desc = ops[x].Union(ops[y]), fmt.Sprintf("r%d=%s.Union(%s)", s, x, y)
		case "Intersect":
			r, desc = ops[x].Intersect(ops[y]), fmt.Sprintf("r%d=%s.Intersect(%s)", s, x, y)
		default:
			r, desc, y = ops[x].Copy(), fmt.Sprintf("r%d=%s.Copy()", s, x), x
		}
		if r == nil {
			r = &sbom.NodeList{} // (a nil result reads as the empty list)
		}
		hist = append(hist, desc)
		used[x]++
		used[y]++
		if used[x] > 1 || used[y] > 1 {
			sharedOperand = true
		}
		// what an operation does to its operands is C11's clause; here their state is taken afresh after every
		// operation and compared after every edit of a result (shared state) and at the end
		for _, n := range names {
			opSnap[n] = hx.Snapshot(ops[n])
		}
		checkAll(desc)
		c12Independent(t, desc+" vs "+x, r, ops[x])
		c12Independent(t, desc+" vs "+y, r, ops[y])
		for _, pr := range results {
			c12Independent(t, desc+" vs earlier result "+pr.desc, r, pr.nl)
		}
		results = append(results, result{desc: desc, nl: r, snap: hx.Snapshot(r), x: x, y: y})
		// in-place edits of a result must not show anywhere else
		if rapid.Bool().Draw(t, "edit") && len(results) > 0 {
			k := rapid.IntRange(0, len(results)-1).Draw(t, "which")
			target := results[k].nl
			how := rapid.SampledFrom([]string{"mutateLeaves", "Add", "RemoveNodes", "UpdateNodes", "appendRoots"}).Draw(t, "how")
			hist = append(hist, fmt.Sprintf("edit r%d in place (%s)", k, how))
			switch how {
			case "mutateLeaves":
				for _, lf := range hx.Leaves(target.ProtoReflect(), "") {
					lf.Apply(t)
				}
			case "Add":
				target.Add(cloneNL(ops["C"]))
			case "RemoveNodes":
				target.RemoveNodes([]string{"a", "b"})
			case "UpdateNodes":
				for _, n := range target.Nodes {
					n.Update(&sbom.Node{Name: "edited", Licenses: []string{"X"}, Hashes: map[int32]string{9: "z"}})
					n.AddHash(sbom.HashAlgorithm_SHA1, "edited")
					for _, p := range n.Suppliers {
						p.Name = "edited"
					}
					for _, e := range n.ExternalReferences {
						e.Url = "edited"
					}
				}
			case "appendRoots":
				target.RootElements = append(target.RootElements, "appended")
				for _, e := range target.Edges {
					e.To = append(e.To, "appended")
				}
			}
			results[k].snap = hx.Snapshot(target)
			checkAll(hist[len(hist)-1])
		}
	}
	hx.ClassIf(sharedOperand, "history_shares_an_operand")
	if sharedOperand {
		if hx.NonTrivial(hx.Digest(strings.Join(hist, ";"), opSnap["A"], opSnap["B"], opSnap["C"])) {
			hx.Sample(func() any {
				return map[string]any{"history": hist, "A": hx.DescribeNL(ops["A"]), "B": hx.DescribeNL(ops["B"]), "C": hx.DescribeNL(ops["C"])}
			})
		}
	}
	// finally: mutating every leaf of each operand leaves every result unchanged
	for _, n := range names {
		for _, lf := range hx.Leaves(ops[n].ProtoReflect(), "") {
			lf.Apply(t)
		}
		for _, r := range results {
			if hx.Snapshot(r.nl) != r.snap {
				t.Fatalf("mutating operand %s changed the result %s\n history: %s", n, r.desc, strings.Join(hist, " ; "))
			}
		}
	}
}

func TestC12History(t *testing.T) { rapid.Check(t, c12HistoryProperty) }
