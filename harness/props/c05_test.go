package props

import (
	"bytes"
	"encoding/json"
	"fmt"
	"regexp"
	"strings"
	"testing"
	"unicode/utf8"

	"github.com/protobom/protobom/pkg/formats"
	"github.com/protobom/protobom/pkg/reader"
	"github.com/protobom/protobom/pkg/sbom"
	"pgregory.net/rapid"
	"verif/harness/hx"
)

// ---- schema-valid JSON generators ------------------------------------------------------------------------

type genDoc struct {
	Root      *hx.JV
	Format    formats.Format
	Declared  []string // declared element identifiers (bom-refs / SPDX ids without prefix), with repetitions
	Resolving bool
	Depth     int
	NoRef     int
	Kind      string
}

var cdxTypes = []string{"application", "framework", "library", "container", "operating-system", "device", "firmware", "file"}
var cdxAlgNames = []string{"MD5", "SHA-1", "SHA-256", "SHA-384", "SHA-512", "SHA3-256", "SHA3-384", "SHA3-512", "BLAKE2b-256", "BLAKE2b-384", "BLAKE2b-512", "BLAKE3"}

func jsonText() *rapid.Generator[string] {
	return rapid.OneOf(hx.TextPlain(), hx.TextAny().Filter(utf8.ValidString))
}

// actorText: actor names (the SPDX library reads them from the raw JSON text) incl. characters that encoders
// treat differently: HTML-sensitive ones, U+2028/2029 (always escaped by Go's encoder), non-BMP, quotes
func actorText() *rapid.Generator[string] {
	return rapid.OneOf(hx.TextName(), rapid.SampledFrom([]string{"AT&T", "a<b>", "line\u2028sep", "para\u2029sep", "q\"uote", "back\\slash", "tab\there", "\U0001F600 inc", "é (e@x.y)", "x/y"}))
}

func genCDXJSON(t *rapid.T) genDoc {
	g := genDoc{Kind: "cyclonedx", Resolving: true}
	ver := rapid.SampledFrom([]string{"1.3", "1.4", "1.5"}).Draw(t, "ver")
	g.Format = map[string]formats.Format{"1.3": formats.CDX13JSON, "1.4": formats.CDX14JSON, "1.5": formats.CDX15JSON}[ver]
	refPool := rapid.SliceOfNDistinct(hx.CDXID(), 3, 8, rapid.ID[string]).Draw(t, "refpool")
	dupMode := rapid.IntRange(0, 3).Draw(t, "dups") == 0
	used := map[string]bool{}
	var comp func(depth int, parentRef string) *hx.JV
	comp = func(depth int, parentRef string) *hx.JV {
		if depth > g.Depth {
			g.Depth = depth
		}
		c := hx.JObject(hx.M("type", hx.JString(rapid.SampledFrom(cdxTypes).Draw(t, "ctype"))), hx.M("name", hx.JString(jsonText().Draw(t, "cname"))))
		switch rapid.IntRange(0, 5).Draw(t, "refmode") {
		case 0:
			g.NoRef++ // no bom-ref at all
		case 1:
			if dupMode && parentRef != "" {
				c.Members = append(c.Members, hx.M("bom-ref", hx.JString(parentRef))) // self-containment
				g.Declared = append(g.Declared, parentRef)
				break
			}
			fallthrough
		default:
			ref := rapid.SampledFrom(refPool).Draw(t, "ref")
			if !dupMode {
				// keep declared references pairwise distinct
				for i := 0; used[ref] && i < len(refPool); i++ {
					ref = refPool[i]
				}
				if used[ref] {
					ref = fmt.Sprintf("%s#%d", ref, len(used))
				}
			}
			used[ref] = true
			c.Members = append(c.Members, hx.M("bom-ref", hx.JString(ref)))
			g.Declared = append(g.Declared, ref)
		}
		if rapid.IntRange(0, 2).Draw(t, "hasgroup") == 0 {
			c.Members = append(c.Members, hx.M("group", hx.JString(rapid.SampledFrom([]string{"org.example", "g", "com.acme"}).Draw(t, "group"))))
		}
		if rapid.IntRange(0, 2).Draw(t, "samename") == 0 {
			c.Set("name", hx.JString(rapid.SampledFrom([]string{"left-pad", "libfoo"}).Draw(t, "commonname")))
		}
		if rapid.Bool().Draw(t, "hasver") {
			c.Members = append(c.Members, hx.M("version", hx.JString(jsonText().Draw(t, "cver"))))
		}
		if rapid.Bool().Draw(t, "hashes") {
			hs := hx.JArray()
			for i := rapid.IntRange(1, 3).Draw(t, "nh"); i > 0; i-- {
				hs.Elems = append(hs.Elems, hx.JObject(hx.M("alg", hx.JString(rapid.SampledFrom(cdxAlgNames).Draw(t, "alg"))), hx.M("content", hx.JString(rapid.StringMatching(`[0-9a-f]{64}`).Draw(t, "hc")))))
			}
			c.Members = append(c.Members, hx.M("hashes", hs))
		}
		switch rapid.IntRange(0, 4).Draw(t, "lic") {
		case 1:
			c.Members = append(c.Members, hx.M("licenses", hx.JArray(hx.JObject(hx.M("license", hx.JObject(hx.M("id", hx.JString("MIT"))))))))
		case 2:
			c.Members = append(c.Members, hx.M("licenses", hx.JArray(hx.JObject(hx.M("license", hx.JObject(hx.M("name", hx.JString(jsonText().Draw(t, "licname")))))), hx.JObject(hx.M("license", hx.JObject(hx.M("id", hx.JString("Apache-2.0"))))))))
		case 3:
			c.Members = append(c.Members, hx.M("licenses", hx.JArray(hx.JObject(hx.M("expression", hx.JString("MIT OR Apache-2.0"))))))
		}
		if rapid.Bool().Draw(t, "purl") {
			c.Members = append(c.Members, hx.M("purl", hx.JString("pkg:npm/"+rapid.OneOf(rapid.StringMatching(`[a-z]{1,5}`), rapid.SampledFrom([]string{"left-pad@1.3.0", "a"})).Draw(t, "purlv"))))
		}
		if rapid.Bool().Draw(t, "extrefs") {
			c.Members = append(c.Members, hx.M("externalReferences", hx.JArray(hx.JObject(hx.M("type", hx.JString(rapid.SampledFrom([]string{"vcs", "website", "other", "bom"}).Draw(t, "ert"))), hx.M("url", hx.JString("https://e.x/"+rapid.StringMatching(`[a-z]{0,5}`).Draw(t, "eru")))))))
		}
		if depth < 6 {
			nsub := rapid.IntRange(0, 2).Draw(t, "nsub")
			if depth < 3 && rapid.Bool().Draw(t, "moresub") {
				nsub++
			}
			if nsub > 0 {
				subs := hx.JArray()
				myRef := jsonStrOf(c.Get("bom-ref"))
				for i := 0; i < nsub; i++ {
					subs.Elems = append(subs.Elems, comp(depth+1, myRef))
				}
				c.Members = append(c.Members, hx.M("components", subs))
			}
		}
		return c
	}
	root := hx.JObject(hx.M("bomFormat", hx.JString("CycloneDX")), hx.M("specVersion", hx.JString(ver)), hx.M("version", hx.JNumber(fmt.Sprint(rapid.IntRange(1, 9).Draw(t, "bomver")))))
	if rapid.Bool().Draw(t, "serial") {
		root.Members = append(root.Members, hx.M("serialNumber", hx.JString("urn:uuid:3e671687-395b-41f5-a30f-a58921a69b7"+fmt.Sprint(rapid.IntRange(0, 9).Draw(t, "sn")))))
	}
	if rapid.IntRange(0, 3).Draw(t, "mdcomp") > 0 {
		root.Members = append(root.Members, hx.M("metadata", hx.JObject(hx.M("component", comp(1, "")))))
	} else if rapid.Bool().Draw(t, "emptymd") {
		root.Members = append(root.Members, hx.M("metadata", hx.JObject(hx.M("timestamp", hx.JString("2024-01-02T03:04:05Z")))))
	}
	comps := hx.JArray()
	for i := rapid.IntRange(0, 4).Draw(t, "ntop"); i > 0; i-- {
		comps.Elems = append(comps.Elems, comp(1, ""))
	}
	root.Members = append(root.Members, hx.M("components", comps))
	if len(g.Declared) > 0 && rapid.Bool().Draw(t, "deps") {
		deps := hx.JArray()
		for i := rapid.IntRange(1, 3).Draw(t, "ndeps"); i > 0; i-- {
			deps.Elems = append(deps.Elems, hx.JObject(hx.M("ref", hx.JString(rapid.SampledFrom(g.Declared).Draw(t, "dref"))), hx.M("dependsOn", hx.JArray(hx.JString(rapid.SampledFrom(g.Declared).Draw(t, "don"))))))
		}
		root.Members = append(root.Members, hx.M("dependencies", deps))
	}
	g.Root = root
	return g
}

func jsonStrOf(v *hx.JV) string {
	if v == nil {
		return ""
	}
	return v.Str
}

var spdxRelTypes = []string{"CONTAINS", "DEPENDS_ON", "DEPENDENCY_OF", "GENERATED_FROM", "OTHER", "DESCRIBES", "DESCRIBED_BY", "CONTAINED_BY", "BUILD_TOOL_OF", "contains", "PATCH_APPLIED"}

func genSPDXJSON(t *rapid.T) genDoc {
	g := genDoc{Kind: "spdx", Format: formats.SPDX23JSON}
	g.Resolving = rapid.IntRange(0, 3).Draw(t, "resolving") > 0
	ids := rapid.SliceOfNDistinct(hx.SPDXID(), 1, 7, rapid.ID[string]).Draw(t, "ids")
	dup := rapid.IntRange(0, 4).Draw(t, "dups") == 0
	pkgs, files := hx.JArray(), hx.JArray()
	var pkgIDs, fileIDs []string
	for i, id := range ids {
		if dup && i > 0 && rapid.Bool().Draw(t, "dupthis") {
			id = ids[0]
		}
		g.Declared = append(g.Declared, id)
		if rapid.IntRange(0, 2).Draw(t, "isfile") == 0 {
			f := hx.JObject(hx.M("fileName", hx.JString("./"+jsonText().Draw(t, "fname"))), hx.M("SPDXID", hx.JString("SPDXRef-"+id)),
				hx.M("checksums", hx.JArray(hx.JObject(hx.M("algorithm", hx.JString("SHA1")), hx.M("checksumValue", hx.JString(rapid.StringMatching(`[0-9a-f]{40}`).Draw(t, "sha1")))))))
			if rapid.Bool().Draw(t, "ftypes") {
				f.Members = append(f.Members, hx.M("fileTypes", hx.JArray(hx.JString("SOURCE"))))
			}
			if rapid.Bool().Draw(t, "fcopy") {
				f.Members = append(f.Members, hx.M("copyrightText", hx.JString(jsonText().Draw(t, "fcr"))))
			}
			files.Elems = append(files.Elems, f)
			fileIDs = append(fileIDs, id)
			continue
		}
		p := hx.JObject(hx.M("name", hx.JString(jsonText().Draw(t, "pname"))), hx.M("SPDXID", hx.JString("SPDXRef-"+id)),
			hx.M("downloadLocation", hx.JString(rapid.SampledFrom([]string{"NOASSERTION", "NONE", "https://e.x/a.tgz"}).Draw(t, "dl"))))
		if rapid.Bool().Draw(t, "pver") {
			p.Members = append(p.Members, hx.M("versionInfo", hx.JString(jsonText().Draw(t, "pv"))))
		}
		if rapid.Bool().Draw(t, "psup") {
			p.Members = append(p.Members, hx.M("supplier", hx.JString(rapid.SampledFrom([]string{"Person: ", "Organization: "}).Draw(t, "st")+actorText().Draw(t, "sname"))))
		}
		if rapid.Bool().Draw(t, "pori") {
			p.Members = append(p.Members, hx.M("originator", hx.JString(rapid.SampledFrom([]string{"Person: ", "Organization: "}).Draw(t, "ot")+actorText().Draw(t, "oname"))))
		}
		if rapid.Bool().Draw(t, "pcs") {
			p.Members = append(p.Members, hx.M("checksums", hx.JArray(hx.JObject(hx.M("algorithm", hx.JString(rapid.SampledFrom([]string{"SHA256", "MD5", "BLAKE3", "ADLER32"}).Draw(t, "palg"))), hx.M("checksumValue", hx.JString("00ff"))))))
		}
		if rapid.Bool().Draw(t, "pext") {
			p.Members = append(p.Members, hx.M("externalRefs", hx.JArray(
				hx.JObject(hx.M("referenceCategory", hx.JString("PACKAGE-MANAGER")), hx.M("referenceType", hx.JString("purl")), hx.M("referenceLocator", hx.JString("pkg:npm/a@1"))),
				hx.JObject(hx.M("referenceCategory", hx.JString(rapid.SampledFrom([]string{"SECURITY", "OTHER", "PACKAGE-MANAGER"}).Draw(t, "rcat"))), hx.M("referenceType", hx.JString(rapid.SampledFrom([]string{"cpe23Type", "advisory", "npm", "x"}).Draw(t, "rtype"))), hx.M("referenceLocator", hx.JString("loc"))))))
		}
		if rapid.Bool().Draw(t, "pdate") {
			p.Members = append(p.Members, hx.M("releaseDate", hx.JString("2024-01-02T03:04:05Z")))
		}
		if rapid.Bool().Draw(t, "ppurp") {
			p.Members = append(p.Members, hx.M("primaryPackagePurpose", hx.JString(rapid.SampledFrom([]string{"LIBRARY", "APPLICATION", "OPERATING-SYSTEM", "OTHER"}).Draw(t, "purp"))))
		}
		pkgs.Elems = append(pkgs.Elems, p)
		pkgIDs = append(pkgIDs, id)
	}
	targets := dedupe(g.Declared)
	ids = targets
	if !g.Resolving {
		targets = append(targets, "missing", "NONE", "NOASSERTION", "DocumentRef-x:SPDXRef-y")
	}
	ref := func(s string) string {
		if s == "NONE" || s == "NOASSERTION" || strings.HasPrefix(s, "DocumentRef-") {
			return s
		}
		return "SPDXRef-" + s
	}
	rels := hx.JArray()
	for i := rapid.IntRange(0, 6).Draw(t, "nrel"); i > 0; i-- {
		a := rapid.SampledFrom(ids).Draw(t, "ra")
		if !g.Resolving && rapid.IntRange(0, 4).Draw(t, "danglingsrc") == 0 {
			a = "missing"
		}
		rels.Elems = append(rels.Elems, hx.JObject(hx.M("spdxElementId", hx.JString(ref(a))), hx.M("relationshipType", hx.JString(rapid.SampledFrom(spdxRelTypes).Draw(t, "rt"))),
			hx.M("relatedSpdxElement", hx.JString(ref(rapid.SampledFrom(targets).Draw(t, "rb"))))))
	}
	for i := rapid.IntRange(0, 2).Draw(t, "ndesc"); i > 0; i-- {
		rels.Elems = append(rels.Elems, hx.JObject(hx.M("spdxElementId", hx.JString("SPDXRef-DOCUMENT")), hx.M("relationshipType", hx.JString(rapid.SampledFrom([]string{"DESCRIBES", "describes"}).Draw(t, "desc"))),
			hx.M("relatedSpdxElement", hx.JString(ref(rapid.SampledFrom(targets).Draw(t, "droot"))))))
	}
	root := hx.JObject(hx.M("spdxVersion", hx.JString("SPDX-2.3")), hx.M("dataLicense", hx.JString("CC0-1.0")), hx.M("SPDXID", hx.JString("SPDXRef-DOCUMENT")),
		hx.M("name", hx.JString(jsonText().Draw(t, "docname"))), hx.M("documentNamespace", hx.JString("https://example.com/"+rapid.StringMatching(`[a-z0-9]{1,8}`).Draw(t, "ns"))),
		hx.M("creationInfo", hx.JObject(hx.M("creators", hx.JArray(hx.JString("Tool: t"), hx.JString("Person: "+actorText().Draw(t, "creator")))), hx.M("created", hx.JString("2024-01-02T03:04:05Z")))))
	if rapid.Bool().Draw(t, "dd") {
		root.Members = append(root.Members, hx.M("documentDescribes", hx.JArray(hx.JString(ref(rapid.SampledFrom(targets).Draw(t, "ddroot"))))))
	}
	if len(pkgs.Elems) > 0 {
		if len(fileIDs) > 0 && rapid.Bool().Draw(t, "hasfiles") {
			pkgs.Elems[0].Members = append(pkgs.Elems[0].Members, hx.M("hasFiles", hx.JArray(hx.JString("SPDXRef-"+fileIDs[0]))))
		}
		root.Members = append(root.Members, hx.M("packages", pkgs))
	}
	if len(files.Elems) > 0 {
		root.Members = append(root.Members, hx.M("files", files))
	}
	if len(rels.Elems) > 0 {
		root.Members = append(root.Members, hx.M("relationships", rels))
	}
	_ = pkgIDs
	g.Root = root
	return g
}

// reencode renders the same JSON value with different white space, member order and string escapes.
func reencode(t *rapid.T, v *hx.JV, label string) ([]byte, bool) {
	reordered := false
	o := hx.EncOpts{}
	if rapid.Bool().Draw(t, label+".indent") {
		o.Indent = rapid.SampledFrom([]string{" ", "  ", "\t"}).Draw(t, label+".ind")
	}
	spaces := rapid.Bool().Draw(t, label+".spaces")
	if spaces {
		o.Space = func() string { return rapid.SampledFrom([]string{"", " ", "\n", "\t ", "\r\n"}).Draw(t, label+".sp") }
	}
	escMode := rapid.IntRange(0, 3).Draw(t, label+".esc")
	switch escMode {
	case 1:
		o.EscapeRune = func(r rune) bool { return r > 0x7e }
	case 2:
		o.EscapeRune = func(r rune) bool { return rapid.IntRange(0, 3).Draw(t, label+".escr") == 0 }
	case 3:
		o.EscapeRune = func(r rune) bool { return true }
	}
	o.EscapeSlash = rapid.Bool().Draw(t, label+".slash")
	if rapid.IntRange(0, 3).Draw(t, label+".shuffle") > 0 {
		o.Order = func(n int) []int {
			p := hx.Permute(t, label+".ord", identityPerm(n))
			for i := range p {
				if p[i] != i {
					reordered = true
				}
			}
			return p
		}
	}
	return v.Encode(o), reordered
}

var safeIDRe = regexp.MustCompile(`^[A-Za-z0-9.-]+$`)

// graphKey is the canonical form of the parsed *graph* (nodes with all their attributes, edges, root elements): the
// statement speaks of "equivalent graphs with identical identifiers"; document-level metadata (a generated serial
// number, a default date) is outside it.
func graphKey(d *sbom.Document) string {
	if d == nil {
		return "<nil>"
	}
	return hx.RefKey(d.GetNodeList(), false)
}

func distinctDeclared(ids []string) bool {
	seen := map[string]bool{}
	for _, id := range ids {
		if seen[id] {
			return false
		}
		seen[id] = true
	}
	return true
}

func parseAuto(data []byte) (*sbom.Document, error) { return readDoc(data) }

// parseAs parses with the format stated explicitly and everything else as the reader's own defaults (a copy of the
// reader's option set with the format filled in: the comparison with auto-detection must differ in the format only).
func parseAs(data []byte, f formats.Format) (*sbom.Document, error) {
	r := reader.New()
	o := *r.Options
	o.Format = f
	return r.ParseStreamWithOptions(bytes.NewReader(data), &o)
}

func c05Property(t *rapid.T) {
	hx.Eval()
	var g genDoc
	if rapid.Bool().Draw(t, "cdx") {
		g = genCDXJSON(t)
	} else {
		g = genSPDXJSON(t)
	}
	base := g.Root.Encode(hx.EncOpts{Indent: "  "})
	doc, err := parseAuto(base)
	if err != nil {
		// the statement is about *successfully parsed* documents: a parser may refuse input (duplicate identifiers,
		// references that do not resolve). Plain documents must parse, otherwise nothing here would be exercised.
		// (also a stricter validation of values — hash contents, relationship names — is the parser's business; that
		// documents are accepted at all is seen in the evidence: non-trivial cases need accepted documents)
		// But "parsing with auto-detection equals parsing with the format stated explicitly": a document that parses
		// with its format stated must parse with auto-detection too.
		if dx, xerr := parseAs(base, g.Format); xerr == nil && dx != nil {
			t.Fatalf("auto-detection rejects (%v) a %s document that parses with the format stated explicitly (%s)\n%s", err, g.Kind, g.Format, trunc(string(base), 2000))
		}
		hx.Class("generated_document_rejected")
		if !distinctDeclared(g.Declared) || !g.Resolving {
			hx.Class("generated_document_rejected(duplicate ids or unresolved references)")
		}
		return
	}
	declared := map[string]int{}
	distinct := true
	for _, d := range g.Declared {
		declared[d]++
		if declared[d] > 1 {
			distinct = false
		}
	}
	hx.Class("kind:" + g.Kind)
	hx.ClassIf(!distinct, "duplicate_declared_ids")
	hx.ClassIf(g.NoRef > 0, "components_without_bom-ref")
	hx.ClassIf(!g.Resolving, "non_resolving_references")
	hx.ClassIf(g.Depth >= 2, "nesting_depth>=2")

	nl := doc.NodeList
	ids := map[string]int{}
	for _, n := range nl.Nodes {
		if n.Id == "" {
			t.Fatalf("parsed node with an empty identifier\n%s", trunc(string(base), 2000))
		}
		ids[n.Id]++
	}
	if distinct {
		for id, c := range ids {
			if c > 1 {
				t.Fatalf("declared identifiers are pairwise distinct but node %q was parsed %d times\n%s", id, c, trunc(string(base), 2000))
			}
		}
	}
	// generated identifiers
	generated := 0
	for id := range ids {
		if declared[id] == 0 {
			generated++
			if g.Kind == "cyclonedx" && distinct {
				// (with pairwise distinct declared refs, an undeclared id can only be a generated one)
				if !safeIDRe.MatchString(id) {
					t.Fatalf("generated identifier %q contains characters outside the identifier-safe alphabet", id)
				}
			}
			// (nodes beyond the declared elements — a node for the document element, placeholders for elements of other
			// documents — are not excluded by the statement)
		}
	}
	if g.Kind == "cyclonedx" && distinct && generated < g.NoRef {
		t.Fatalf("%d components lack a bom-ref but only %d identifiers were generated (not unique, or colliding with declared ones)\n%s", g.NoRef, generated, trunc(string(base), 2500))
	}
	for d := range declared {
		if ids[d] == 0 {
			t.Fatalf("declared element %q is missing from the parsed graph\n%s", d, trunc(string(base), 2000))
		}
	}
	if g.Resolving {
		if err := hx.WellFormed(&sbom.NodeList{Nodes: dedupNodes(nl.Nodes), Edges: nl.Edges, RootElements: nl.RootElements}, false); err != nil {
			t.Fatalf("every reference of the input resolves, yet the parsed graph is not closed: %v\n graph: %s\n input: %s", err, hx.DescribeNL(nl), trunc(string(base), 2500))
		}
	}
	key := graphKey(doc)
	// same bytes twice
	doc2, err := parseAuto(base)
	if err != nil || graphKey(doc2) != key {
		t.Fatalf("parsing the same bytes twice gives different results (err=%v)\n first : %s\n second: %s", err, trunc(key, 1500), trunc(graphKey(doc2), 1500))
	}
	// explicit format
	doc3, err := parseAs(base, g.Format)
	if err != nil || graphKey(doc3) != key {
		t.Fatalf("parsing with the format stated explicitly (%s) differs from auto-detection (err=%v)", g.Format, err)
	}
	// re-encodings of the same JSON value
	anyReorder := false
	for i := 0; i < 3; i++ {
		enc, reordered := reencode(t, g.Root, fmt.Sprintf("enc%d", i))
		anyReorder = anyReorder || reordered
		d, err := parseAuto(enc)
		if err != nil {
			t.Fatalf("a re-encoding of the same JSON value is rejected: %v\n%s", err, trunc(string(enc), 2000))
		}
		if k := graphKey(d); k != key {
			t.Fatalf("a re-encoding of the same JSON value (white space / member order / string escapes) parses differently:\n base   : %s\n variant: %s\n encoding: %s", trunc(key, 1800), trunc(k, 1800), trunc(string(enc), 1500))
		}
	}
	if (g.Depth >= 2 || !distinct || g.NoRef > 0) && anyReorder {
		if hx.NonTrivial(hx.Digest(string(base))) {
			hx.Sample(func() any {
				return map[string]any{"kind": g.Kind, "format": g.Format, "input": trunc(string(g.Root.Encode(hx.EncOpts{})), 1200)}
			})
		}
	}
}

func dedupNodes(ns []*sbom.Node) []*sbom.Node {
	seen := map[string]bool{}
	var out []*sbom.Node
	for _, n := range ns {
		if !seen[n.Id] {
			seen[n.Id] = true
			out = append(out, n)
		}
	}
	return out
}

func TestC05(t *testing.T) { rapid.Check(t, c05Property) }

// ---- the public identifier generator ---------------------------------------------------------------------

func c05IdentifierProperty(t *rapid.T) {
	hx.Eval()
	seeds := rapid.SliceOfN(rapid.OneOf(hx.TextAny(), rapid.SampledFrom([]string{"auto", "node", "", "a/b:c d", "é", "\xff"})), 0, 4).Draw(t, "seeds")
	id := sbom.NewNodeIdentifier(seeds...)
	if id == "" || !safeIDRe.MatchString(id) {
		t.Fatalf("NewNodeIdentifier(%q) = %q is empty or leaves the identifier-safe alphabet", seeds, id)
	}
	// "usable seed" is not defined by the statement: determinism is asserted where no reading can deny it — some
	// seed that is not a flag word carries a letter or digit (a blank or punctuation-only seed may be treated as none)
	valid := 0
	for _, s := range seeds {
		if s != "auto" && s != "node" && utf8.ValidString(s) && strings.ContainsAny(s, "abcdefghijklmnopqrstuvwxyzABCDEFGHIJKLMNOPQRSTUVWXYZ0123456789") {
			valid++
		}
	}
	usable := valid > 0
	hx.ClassIf(usable, "usable_seed")
	if usable {
		if id2 := sbom.NewNodeIdentifier(seeds...); id2 != id {
			t.Fatalf("NewNodeIdentifier(%q) is not reproducible: %q then %q", seeds, id, id2)
		}
		hx.NonTrivial(hx.Digest("id", fmt.Sprintf("%q", seeds)))
	}
}

func TestC05Identifier(t *testing.T) { rapid.Check(t, c05IdentifierProperty) }

// KF-04: a relationship that names the document element in any role other than DOCUMENT DESCRIBES x yields an
// edge endpoint "DOCUMENT" that is not a node.
func kf04Witness() bool {
	data := `{"spdxVersion":"SPDX-2.3","dataLicense":"CC0-1.0","SPDXID":"SPDXRef-DOCUMENT","name":"d","documentNamespace":"https://example.com/kf04",
	 "creationInfo":{"creators":["Tool: t"],"created":"2024-01-02T03:04:05Z"},
	 "packages":[{"name":"a","SPDXID":"SPDXRef-a","downloadLocation":"NONE"}],
	 "relationships":[{"spdxElementId":"SPDXRef-a","relationshipType":"DESCRIBED_BY","relatedSpdxElement":"SPDXRef-DOCUMENT"}]}`
	doc, err := readDoc([]byte(data))
	if err != nil {
		return false
	}
	return hx.WellFormed(doc.NodeList, false) != nil
}

// KF-06: the SPDX parser makes no node for a snippet, yet keeps relationships that name one: the edge endpoint is
// not a node although the input declares the snippet.
func kf06Witness() bool {
	data := `{"spdxVersion":"SPDX-2.3","dataLicense":"CC0-1.0","SPDXID":"SPDXRef-DOCUMENT","name":"d","documentNamespace":"https://example.com/kf06",
	 "creationInfo":{"creators":["Tool: t"],"created":"2024-01-02T03:04:05Z"},
	 "files":[{"fileName":"./a.c","SPDXID":"SPDXRef-f","checksums":[{"algorithm":"SHA1","checksumValue":"da39a3ee5e6b4b0d3255bfef95601890afd80709"}]}],
	 "snippets":[{"SPDXID":"SPDXRef-Snippet-1","snippetFromFile":"SPDXRef-f","name":"s",
	   "ranges":[{"startPointer":{"offset":1,"reference":"SPDXRef-f"},"endPointer":{"offset":9,"reference":"SPDXRef-f"}}]}],
	 "relationships":[{"spdxElementId":"SPDXRef-DOCUMENT","relationshipType":"DESCRIBES","relatedSpdxElement":"SPDXRef-f"},
	   {"spdxElementId":"SPDXRef-f","relationshipType":"CONTAINS","relatedSpdxElement":"SPDXRef-Snippet-1"}]}`
	doc, err := readDoc([]byte(data))
	if err != nil {
		return false
	}
	return hx.WellFormed(doc.NodeList, false) != nil
}

func TestC05Findings(t *testing.T) {
	hx.Eval()
	runFindings(t, "C05", map[string]func() bool{"KF-04": kf04Witness, "KF-06": kf06Witness})
}

// TestC05Real: real SBOM files, re-encoded (white space, member order, escapes), must parse to the same document.
func TestC05Real(t *testing.T) {
	maxSize := int64(120 << 10)
	if hx.Thorough() {
		maxSize = 800 << 10
	}
	shard, shards := hx.Shard()
	for fi, path := range realFiles(maxSize) {
		if fi%shards != shard {
			continue
		}
		data, err := osReadFile(path)
		if err != nil {
			t.Fatal(err)
		}
		v, err := hx.ParseJV(data)
		if err != nil {
			continue
		}
		doc, err := parseAuto(data)
		if err != nil {
			hx.Class("real:rejected")
			continue
		}
		key := graphKey(doc)
		if strings.Contains(key, "protobom-") && strings.Contains(doc.Metadata.GetId(), "/protobom-") {
			hx.Excluded("real_spdx_without_namespace(random document id by design)")
			continue
		}
		for i := 0; i < 3; i++ {
			hx.Eval()
			var reordered bool
			enc := rapid.Custom(func(rt *rapid.T) []byte {
				b, r := reencode(rt, v, "real")
				reordered = r
				return b
			}).Example(hx.EnvInt("VERIF_SEED", 1)*31 + fi*7 + i)
			d, err := parseAuto(enc)
			if err != nil {
				hx.RecordFailure("C05Real", fmt.Sprintf("re-encoding of %s rejected: %v", path, err), map[string]any{"file": path, "variant": i})
				t.Fatalf("re-encoding %d of %s is rejected: %v", i, path, err)
			}
			if k := graphKey(d); k != key {
				hx.RecordFailure("C05Real", fmt.Sprintf("re-encoding of %s parses differently", path), map[string]any{"file": path, "variant": i})
				t.Fatalf("re-encoding %d of %s parses differently (first difference near %q)", i, path, firstDiff(key, k))
			}
			if reordered {
				hx.NonTrivial(hx.Digest("real", path, i))
			}
		}
		hx.Sample(func() any { return "real file " + path + " under 3 re-encodings" })
		// mutated variants (members deleted, array entries dropped / duplicated / swapped, references retargeted
		// to other declared ids): each is a new document for every clause
		nmut := 12
		if hx.Thorough() {
			nmut = 80
		}
		if len(data) > 60<<10 {
			nmut = nmut/4 + 1
		}
		for m := 0; m < nmut; m++ {
			hx.Eval()
			if msg := c05RealMutated(data, hx.EnvInt("VERIF_SEED", 1)*1009+fi*53+m); msg != "" {
				hx.RecordFailure("C05Real", fmt.Sprintf("mutation %d of %s: %s", m, path, msg), map[string]any{"file": path, "mutation": m})
				t.Fatalf("mutation %d of %s: %s", m, path, msg)
			}
		}
	}
}

// c05RealMutated derives one mutated document from a real file and applies the C05 clauses to it; returns a
// description of the violation or "".
func c05RealMutated(data []byte, seed int) string {
	var enc1, enc2 []byte
	mutated := rapid.Custom(func(rt *rapid.T) []byte {
		var v any
		if err := json.Unmarshal(data, &v); err != nil {
			return nil
		}
		v = mutateJSON(rt, v, rapid.IntRange(1, 4).Draw(rt, "k"))
		b, _ := json.Marshal(v)
		if jv, err := hx.ParseJV(b); err == nil {
			enc1, _ = reencode(rt, jv, "m1")
			enc2, _ = reencode(rt, jv, "m2")
		}
		return b
	}).Example(seed)
	if mutated == nil || enc1 == nil {
		return ""
	}
	doc, err := parseAuto(mutated)
	if err != nil {
		hx.Class("real_mutated:rejected")
		return ""
	}
	hx.Class("real_mutated:parsed")
	if strings.Contains(doc.Metadata.GetId(), "/protobom-") {
		hx.Excluded("real_spdx_without_namespace(random document id by design)")
		return ""
	}
	for _, n := range doc.NodeList.GetNodes() {
		if n.GetId() == "" {
			return "parsed node with an empty identifier"
		}
	}
	if refsResolve(mutated) {
		hx.Class("real_mutated:references_resolve")
		nl := doc.NodeList
		if err := hx.WellFormed(&sbom.NodeList{Nodes: dedupNodes(nl.Nodes), Edges: nl.Edges, RootElements: nl.RootElements}, false); err != nil {
			return fmt.Sprintf("every reference of the input resolves, yet the parsed graph is not closed: %v", err)
		}
	}
	key := graphKey(doc)
	if d2, err := parseAuto(mutated); err != nil || graphKey(d2) != key {
		return fmt.Sprintf("parsing the same bytes twice gives different results (err=%v)", err)
	}
	for i, enc := range [][]byte{enc1, enc2} {
		d, err := parseAuto(enc)
		if err != nil {
			return fmt.Sprintf("re-encoding %d is rejected although the document itself parses: %v", i, err)
		}
		if k := graphKey(d); k != key {
			return fmt.Sprintf("re-encoding %d parses differently (first difference near %q)", i, firstDiff(key, k))
		}
	}
	hx.NonTrivial(hx.Digest("realmut", string(mutated)))
	return ""
}

// refsResolve: every reference of the document (CycloneDX dependencies; SPDX relationships, documentDescribes,
// hasFiles) names an element the document declares, and the SPDX document element occurs only as the source of
// DESCRIBES (KF-04), and there are no snippets (KF-06). Conservative: anything unexpected answers false (then closedness is not asserted).
func refsResolve(data []byte) bool {
	var top map[string]any
	if json.Unmarshal(data, &top) != nil {
		return false
	}
	declared := map[string]bool{}
	var collect func(v any)
	collect = func(v any) {
		switch x := v.(type) {
		case map[string]any:
			for k, c := range x {
				if s, ok := c.(string); ok && (k == "bom-ref" || k == "SPDXID") {
					declared[s] = true
				}
				collect(c)
			}
		case []any:
			for _, e := range x {
				collect(e)
			}
		}
	}
	collect(top)
	// (KF-06) snippets are declared elements for which the parser makes no node: a document that has any is set aside
	if len(jsonArr(top["snippets"])) > 0 {
		hx.Excluded("spdx_document_with_snippets(KF-06)")
		return false
	}
	str := func(v any) (string, bool) { s, ok := v.(string); return s, ok }
	for _, d := range jsonArr(top["dependencies"]) {
		dm := jsonObj(d)
		if r, ok := str(dm["ref"]); !ok || !declared[r] {
			return false
		}
		for _, on := range jsonArr(dm["dependsOn"]) {
			if r, ok := str(on); !ok || !declared[r] {
				return false
			}
		}
	}
	for _, r := range jsonArr(top["relationships"]) {
		rm := jsonObj(r)
		a, ok1 := str(rm["spdxElementId"])
		b, ok2 := str(rm["relatedSpdxElement"])
		ty, _ := str(rm["relationshipType"])
		if !ok1 || !ok2 || !declared[a] || !declared[b] {
			return false
		}
		if b == "SPDXRef-DOCUMENT" || (a == "SPDXRef-DOCUMENT" && ty != "DESCRIBES") {
			return false
		}
	}
	for _, r := range jsonArr(top["documentDescribes"]) {
		if s, ok := str(r); !ok || !declared[s] || s == "SPDXRef-DOCUMENT" {
			return false
		}
	}
	for _, key := range []string{"packages", "files"} {
		for _, p := range jsonArr(top[key]) {
			for _, f := range jsonArr(jsonObj(p)["hasFiles"]) {
				if s, ok := str(f); !ok || !declared[s] || s == "SPDXRef-DOCUMENT" {
					return false
				}
			}
		}
	}
	return true
}

func firstDiff(a, b string) string {
	n := len(a)
	if len(b) < n {
		n = len(b)
	}
	i := 0
	for i < n && a[i] == b[i] {
		i++
	}
	lo := i - 60
	if lo < 0 {
		lo = 0
	}
	hi := i + 60
	ea, eb := hi, hi
	if ea > len(a) {
		ea = len(a)
	}
	if eb > len(b) {
		eb = len(b)
	}
	return a[lo:ea] + "  <->  " + b[lo:eb]
}
