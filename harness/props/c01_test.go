package props

import (
	"fmt"
	"sort"
	"strings"
	"testing"
	"time"

	"github.com/protobom/protobom/pkg/formats"
	"github.com/protobom/protobom/pkg/sbom"
	"google.golang.org/protobuf/types/known/timestamppb"
	"pgregory.net/rapid"
	"verif/harness/hx"
)

// ---- SPDX-representable document generator ---------------------------------------------------------

func genPersonSPDX(t *rapid.T, l string) *sbom.Person {
	return &sbom.Person{Name: hx.TextName().Draw(t, l+"name"), Email: rapid.SampledFrom([]string{"", "a@b.c", "x y"}).Draw(t, l+"email"),
		IsOrg: rapid.Bool().Draw(t, l+"org"), Url: hx.TextPlain().Draw(t, l+"url"), Phone: hx.TextPlain().Draw(t, l+"phone")}
}

func genDate(t *rapid.T, l string) *timestamppb.Timestamp {
	if rapid.Bool().Draw(t, l+"nil") {
		return nil
	}
	sec := rapid.Int64Range(-62135596800, 253402300799).Draw(t, l+"sec") // years 1..9999
	if rapid.Bool().Draw(t, l+"recent") {
		sec = rapid.Int64Range(0, 2000000000).Draw(t, l+"sec2")
	}
	return &timestamppb.Timestamp{Seconds: sec, Nanos: int32(rapid.IntRange(0, 999999999).Draw(t, l+"nanos"))}
}

// number of *defined* values of the two enums (numbers beyond them are not "enum values")
var nPurposes = len(sbom.Purpose_name)
var nExtRefTypes = len(sbom.ExternalReference_ExternalReferenceType_name)

func genSPDXNode(t *rapid.T, id string) *sbom.Node {
	tx := hx.TextPlain()
	n := &sbom.Node{Id: id}
	if rapid.IntRange(0, 2).Draw(t, "isfile") == 0 {
		n.Type = sbom.Node_FILE
	}
	opt := func(l string) string {
		if rapid.Bool().Draw(t, l+"?") {
			return tx.Draw(t, l)
		}
		return ""
	}
	n.Name = opt("name")
	n.Version = opt("version")
	n.FileName = opt("filename")
	n.UrlHome = opt("urlhome")
	n.UrlDownload = opt("urldl")
	n.LicenseConcluded = opt("lc")
	n.LicenseComments = opt("lcm")
	n.Copyright = strings.TrimSpace(opt("cr"))
	n.SourceInfo = opt("si")
	n.Comment = opt("cm")
	n.Summary = opt("su")
	n.Description = opt("de")
	n.Attribution = rapid.SliceOfN(tx, 0, 3).Draw(t, "attr")
	n.FileTypes = rapid.SliceOfN(rapid.SampledFrom([]string{"TEXT", "SOURCE", "BINARY", "weird", "é"}), 0, 3).Draw(t, "ft")
	for i := rapid.IntRange(0, 3).Draw(t, "npurp"); i > 0; i-- {
		n.PrimaryPurpose = append(n.PrimaryPurpose, sbom.Purpose(rapid.IntRange(0, nPurposes-1).Draw(t, "purp")))
	}
	for i := rapid.IntRange(0, 4).Draw(t, "nh"); i > 0; i-- {
		if n.Hashes == nil {
			n.Hashes = map[int32]string{}
		}
		algo := int32(rapid.IntRange(0, 17).Draw(t, "algo"))
		n.Hashes[algo] = hashValue(t, "hv", algo) // well-formed digests (a writer may leave out anything else)
	}
	for i := rapid.IntRange(0, 4).Draw(t, "ni"); i > 0; i-- {
		if n.Identifiers == nil {
			n.Identifiers = map[int32]string{}
		}
		// well-formed identifiers of each kind (SPDX 2.3 Annex F gives a pattern for each locator; a writer may leave out
		// a string that is no purl / CPE name / gitoid)
		switch idt := int32(rapid.IntRange(1, 4).Draw(t, "idt")); idt {
		case 1:
			n.Identifiers[idt] = genPurl(t, "purl")
		case 2:
			n.Identifiers[idt] = genCPE22(t, "cpe22")
		case 3:
			n.Identifiers[idt] = genCPE23(t, "cpe23")
		default:
			n.Identifiers[idt] = "gitoid:blob:" + rapid.SampledFrom([]string{"sha1:" + strings.Repeat("0a", 20), "sha256:" + strings.Repeat("b1", 32), "sha1:" + strings.Repeat("ff", 20)}).Draw(t, "gitoid")
		}
	}
	for i := rapid.IntRange(0, 3).Draw(t, "ner"); i > 0; i-- {
		// one reference in six has no locator (SPDX cannot carry it: the projection leaves it out; its neighbours stay)
		erURL := ""
		if rapid.IntRange(0, 5).Draw(t, "erurl?") > 0 {
			erURL = hx.TextPlainNE().Draw(t, "erurl")
		}
		er := &sbom.ExternalReference{Url: erURL, Comment: tx.Draw(t, "ercm"), Authority: tx.Draw(t, "erau"),
			Type: sbom.ExternalReference_ExternalReferenceType(rapid.IntRange(0, nExtRefTypes-1).Draw(t, "ert"))}
		if rapid.Bool().Draw(t, "erh") {
			erha := int32(rapid.IntRange(1, 12).Draw(t, "erha"))
			er.Hashes = map[int32]string{erha: hashValue(t, "erhv", erha)}
		}
		n.ExternalReferences = append(n.ExternalReferences, er)
	}
	for i := rapid.IntRange(0, 2).Draw(t, "nsup"); i > 0; i-- {
		n.Suppliers = append(n.Suppliers, genPersonSPDX(t, "sup"))
	}
	for i := rapid.IntRange(0, 2).Draw(t, "nori"); i > 0; i-- {
		n.Originators = append(n.Originators, genPersonSPDX(t, "ori"))
	}
	n.ReleaseDate = genDate(t, "rd")
	n.BuildDate = genDate(t, "bd")
	n.ValidUntilDate = genDate(t, "vd")
	return n
}

func genSPDXDoc(t *rapid.T) *sbom.Document {
	doc := sbom.NewDocument()
	doc.Metadata.Id = "urn:doc"
	doc.Metadata.Name = hx.TextName().Draw(t, "docname") // (the document name is mandatory in SPDX: a writer may refuse a nameless document)
	ids := rapid.SliceOfNDistinct(hx.SPDXID(), 0, 8, rapid.ID[string]).Draw(t, "ids")
	for _, id := range ids {
		doc.NodeList.Nodes = append(doc.NodeList.Nodes, genSPDXNode(t, id))
	}
	if len(ids) > 0 {
		for i := rapid.IntRange(0, 8).Draw(t, "ne"); i > 0; i-- {
			doc.NodeList.Edges = append(doc.NodeList.Edges, &sbom.Edge{
				From: rapid.SampledFrom(ids).Draw(t, "from"),
				Type: sbom.Edge_Type(rapid.IntRange(1, 44).Draw(t, "et")),
				To:   rapid.SliceOfN(rapid.SampledFrom(ids), 0, 3).Draw(t, "to"),
			})
		}
		doc.NodeList.RootElements = rapid.SliceOfN(rapid.SampledFrom(ids), 0, 3).Draw(t, "roots")
		hx.ClassIf(addInverseEdges(t, doc.NodeList), "inverse_relationship_pair")
	}
	return doc
}

// ---- projection onto what SPDX 2.3 can carry (written from the SPDX 2.3 specification) -----------------

type proj map[string]string

// wildcardMark: the attribute may come back as any native value or absent
const wildcardMark = "\x00*\x00"

func dateStr(ts *timestamppb.Timestamp) string {
	if ts == nil {
		return ""
	}
	return ts.AsTime().UTC().Truncate(time.Second).Format(time.RFC3339)
}

func normNone(s string) string {
	if s == "NONE" || s == "NOASSERTION" {
		return ""
	}
	return s
}

// the 16 checksum algorithms SPDX 2.3 names (no MD2, no unknown)
var spdxAlgos = map[int32]bool{1: true, 2: true, 3: true, 4: true, 5: true, 6: true, 7: true, 8: true, 9: true, 10: true, 11: true, 12: true, 14: true, 15: true, 16: true, 17: true}

// the 12 primary package purposes of SPDX 2.3
var spdxNativePurpose = map[sbom.Purpose]bool{sbom.Purpose_APPLICATION: true, sbom.Purpose_FRAMEWORK: true, sbom.Purpose_LIBRARY: true,
	sbom.Purpose_CONTAINER: true, sbom.Purpose_OPERATING_SYSTEM: true, sbom.Purpose_DEVICE: true, sbom.Purpose_FIRMWARE: true,
	sbom.Purpose_SOURCE: true, sbom.Purpose_ARCHIVE: true, sbom.Purpose_FILE: true, sbom.Purpose_INSTALL: true, sbom.Purpose_OTHER: true}

// external reference types with a native SPDX 2.3 category/type pair
var spdxExactExt = map[sbom.ExternalReference_ExternalReferenceType]bool{sbom.ExternalReference_BOWER: true,
	sbom.ExternalReference_MAVEN_CENTRAL: true, sbom.ExternalReference_NPM: true, sbom.ExternalReference_NUGET: true,
	sbom.ExternalReference_OTHER: true, sbom.ExternalReference_SECURITY_ADVISORY: true, sbom.ExternalReference_SECURITY_FIX: true,
	sbom.ExternalReference_SECURITY_OTHER: true}

func actor(ps []*sbom.Person) string {
	if len(ps) == 0 {
		return ""
	}
	s := ps[0].Name
	if ps[0].Email != "" {
		s = fmt.Sprintf("%s (%s)", ps[0].Name, ps[0].Email)
	}
	return fmt.Sprintf("%v|%s", ps[0].IsOrg, s)
}

func joinSorted(xs []string) string {
	c := append([]string{}, xs...)
	sort.Strings(c)
	return strings.Join(c, "\x00")
}

// the closed file-type enumeration of SPDX 2.3 (§8.3)
var spdxFileTypes = map[string]bool{"SOURCE": true, "BINARY": true, "ARCHIVE": true, "APPLICATION": true, "AUDIO": true, "IMAGE": true, "TEXT": true,
	"VIDEO": true, "DOCUMENTATION": true, "SPDX": true, "OTHER": true}

func filterStrings(in []string, keep func(string) bool) []string {
	out := []string{}
	for _, s := range in {
		if keep(s) {
			out = append(out, s)
		}
	}
	return out
}

// spdxProj projects a node. wildcard: a non-native first purpose may come back as any native value or absent.
func spdxProj(n *sbom.Node, wildcard bool) proj {
	p := proj{}
	p["kind"] = n.Type.String()
	p["name"] = n.Name
	p["license_concluded"] = normNone(n.LicenseConcluded)
	p["license_comments"] = n.LicenseComments
	p["copyright"] = normNone(strings.TrimSpace(n.Copyright))
	p["comment"] = n.Comment
	hs := []string{}
	// entries SPDX cannot carry are left out on both sides: a checksum, identifier or attribution text without
	// content (the value is mandatory in SPDX), a file type outside the closed SPDX enumeration
	for a, v := range n.Hashes {
		if spdxAlgos[a] && v != "" {
			hs = append(hs, fmt.Sprintf("%d=%s", a, v))
		}
	}
	p["hashes"] = joinSorted(hs)
	if n.Type == sbom.Node_FILE {
		p["file_types"] = joinSorted(dedupe(filterStrings(n.FileTypes, func(s string) bool { return spdxFileTypes[s] })))
		return p
	}
	p["attribution"] = joinSorted(dedupe(filterStrings(n.Attribution, func(s string) bool { return s != "" })))
	p["version"] = n.Version
	p["file_name"] = n.FileName
	p["url_home"] = normNone(n.UrlHome)
	p["url_download"] = normNone(n.UrlDownload)
	p["source_info"] = n.SourceInfo
	p["summary"] = n.Summary
	p["description"] = n.Description
	ids := []string{}
	for k, v := range n.Identifiers {
		if k >= 1 && k <= 4 && v != "" {
			ids = append(ids, fmt.Sprintf("%d=%s", k, v))
		}
	}
	p["identifiers"] = joinSorted(ids)
	ers, exact := []string{}, []string{}
	for _, e := range n.ExternalReferences {
		if e.Url == "" {
			continue
		}
		// the locator and comment of every reference survive (as a set: references that render identically are one);
		// the type survives when SPDX has an exact counterpart — what a type without counterpart degrades to is the
		// serializer's choice
		ers = append(ers, fmt.Sprintf("%s|%s", e.Url, e.Comment))
		if spdxExactExt[e.Type] {
			exact = append(exact, fmt.Sprintf("%d|%s|%s", e.Type, e.Url, e.Comment))
		}
	}
	p["external_references"] = joinSorted(dedupe(ers))
	p["extref_exact"] = joinSorted(dedupe(exact))
	switch {
	case len(n.PrimaryPurpose) > 0 && spdxNativePurpose[n.PrimaryPurpose[0]]:
		p["primary_purpose"] = n.PrimaryPurpose[0].String()
	case wildcard:
		p["primary_purpose"] = wildcardMark
	case len(n.PrimaryPurpose) > 0:
		p["primary_purpose"] = n.PrimaryPurpose[0].String()
	}
	p["release_date"] = dateStr(n.ReleaseDate)
	p["build_date"] = dateStr(n.BuildDate)
	p["valid_until_date"] = dateStr(n.ValidUntilDate)
	p["supplier"] = actor(n.Suppliers)
	p["originator"] = actor(n.Originators)
	return p
}

// compareDocs checks node multiset (id, kind), edge triple set, root set, and per-node projections.
func compareDocs(want, got *sbom.Document, projf func(n *sbom.Node, wildcard bool) proj, wildcard bool) error {
	ws, gs := hx.GraphSets(want.NodeList), hx.GraphSets(got.NodeList)
	if d := setsDiff(gs, ws); d != "" {
		return fmt.Errorf("graph differs (nodes / typed edges / root elements):%s", d)
	}
	idx := map[string]*sbom.Node{}
	for _, n := range got.NodeList.Nodes {
		idx[n.Id] = n
	}
	for _, n := range want.NodeList.Nodes {
		m := idx[n.Id]
		w, g := projf(n, wildcard), projf(m, false)
		keys := make([]string, 0, len(w))
		for k := range w {
			keys = append(keys, k)
		}
		sort.Strings(keys)
		for _, k := range keys {
			if k == "primary_purpose" && w[k] == wildcardMark {
				// a purpose SPDX has no native value for may come back absent, as a native value, or as itself
				if g[k] != "" && !spdxNativePurposeName(g[k]) && (len(n.PrimaryPurpose) == 0 || g[k] != n.PrimaryPurpose[0].String()) {
					return fmt.Errorf("node %q: primary purpose came back as %q, which is neither a native value nor the node's own", n.Id, g[k])
				}
				continue
			}
			if k == "extref_exact" {
				have := map[string]bool{}
				for _, e := range strings.Split(g[k], "\x00") {
					have[e] = true
				}
				for _, e := range strings.Split(w[k], "\x00") {
					if e != "" && !have[e] {
						return fmt.Errorf("node %q: external reference %q did not come back with its type (got %q)", n.Id, e, g[k])
					}
				}
				continue
			}
			if g[k] != w[k] {
				return fmt.Errorf("node %q attribute %s: got %q want %q", n.Id, k, g[k], w[k])
			}
		}
	}
	return nil
}

func spdxNativePurposeName(s string) bool {
	for p := range spdxNativePurpose {
		if p.String() == s {
			return true
		}
	}
	return false
}

func roundTrip(doc *sbom.Document, f formats.Format, indent int) (*sbom.Document, []byte, error) {
	out, err := writeDoc(doc, f, indent)
	if err != nil {
		return nil, out, fmt.Errorf("write: %w", err)
	}
	d2, err := readDoc(out)
	if err != nil {
		return nil, out, fmt.Errorf("read back: %w", err)
	}
	if d2 == nil || d2.NodeList == nil {
		return nil, out, fmt.Errorf("read back returned a nil document / node list")
	}
	return d2, out, nil
}

func c01Property(t *rapid.T) {
	hx.Eval()
	doc := genSPDXDoc(t)
	indent := rapid.IntRange(0, 8).Draw(t, "indent")

	nl := doc.NodeList
	anyDate, anyOrig, multiPurp, anyFile, selfLoop, multiEdge := false, false, false, false, false, false
	seenFT := map[string]bool{}
	for _, n := range nl.Nodes {
		anyDate = anyDate || n.ReleaseDate != nil || n.BuildDate != nil || n.ValidUntilDate != nil
		anyOrig = anyOrig || len(n.Originators) > 0
		multiPurp = multiPurp || len(n.PrimaryPurpose) >= 2
		anyFile = anyFile || n.Type == sbom.Node_FILE
	}
	nedges := 0
	for _, e := range nl.Edges {
		k := fmt.Sprintf("%s/%d", e.From, e.Type)
		multiEdge = multiEdge || seenFT[k]
		seenFT[k] = true
		for _, to := range e.To {
			nedges++
			selfLoop = selfLoop || to == e.From
		}
		hx.Class(fmt.Sprintf("edge_type_%02d", e.Type))
	}
	hx.ClassIf(anyDate, "date_set")
	hx.ClassIf(anyOrig, "originator_set")
	hx.ClassIf(multiPurp, "two_or_more_purposes")
	hx.ClassIf(anyFile, "file_node")
	hx.ClassIf(selfLoop, "self_loop")
	hx.ClassIf(multiEdge, "several_edges_per_source_type")
	hx.ClassIf(hasCycle(nl), "cyclic")
	hx.ClassIf(len(dedupe(nl.RootElements)) > 1, "multi_root")
	if len(nl.Nodes) >= 2 && nedges >= 1 && (anyDate || anyOrig || multiPurp || anyFile) {
		if hx.NonTrivial(hx.Digest(hx.Snapshot(doc), indent)) {
			hx.Sample(func() any { return map[string]any{"indent": indent, "document": hx.RefKeyOrdered(doc, "")} })
		}
	}

	d2, out, err := roundTrip(doc, formats.SPDX23JSON, indent)
	if err != nil {
		t.Fatalf("SPDX 2.3 round trip failed: %v\n%s", err, trunc(string(out), 1500))
	}
	if err := compareDocs(doc, d2, spdxProj, true); err != nil {
		t.Fatalf("SPDX 2.3 write-then-read: %v\n doc: %s\n out: %s", err, hx.RefKeyOrdered(doc, ""), trunc(string(out), 3000))
	}
	d3, out2, err := roundTrip(d2, formats.SPDX23JSON, indent)
	if err != nil {
		t.Fatalf("second SPDX 2.3 round trip failed: %v\n%s", err, trunc(string(out2), 1500))
	}
	if err := compareDocs(d2, d3, spdxProj, false); err != nil {
		t.Fatalf("a second write-then-read pass changes the document: %v", err)
	}
}

func TestC01(t *testing.T) { rapid.Check(t, c01Property) }

// TestC01Sweep guarantees enum coverage: every one of the 44 relationship types and 16 shared checksum
// algorithms, each of the 12 native purposes and 4 identifier kinds survives exactly, at every indent 0..8.
func TestC01Sweep(t *testing.T) {
	for et := 1; et <= 44; et++ {
		for _, indent := range []int{0, 1, 4, 8} {
			hx.Eval()
			doc := sbom.NewDocument()
			doc.Metadata.Id, doc.Metadata.Name = "urn:doc", "sweep"
			doc.NodeList.Nodes = []*sbom.Node{{Id: "a", Name: "a"}, {Id: "b", Name: "b", Type: sbom.Node_FILE}}
			doc.NodeList.Edges = []*sbom.Edge{{From: "a", Type: sbom.Edge_Type(et), To: []string{"b", "a"}}}
			doc.NodeList.RootElements = []string{"a"}
			d2, out, err := roundTrip(doc, formats.SPDX23JSON, indent)
			if err == nil {
				err = compareDocs(doc, d2, spdxProj, true)
			}
			if err != nil {
				hx.RecordFailure("C01Sweep", fmt.Sprintf("relationship type %v: %v", sbom.Edge_Type(et), err), map[string]any{"edge_type": et, "indent": indent})
				t.Fatalf("relationship type %v (indent %d): %v\n%s", sbom.Edge_Type(et), indent, err, trunc(string(out), 1500))
			}
			hx.NonTrivial(hx.Digest("sweep-edge", et, indent))
		}
	}
	for a := range spdxAlgos {
		for _, file := range []bool{false, true} {
			hx.Eval()
			doc := sbom.NewDocument()
			doc.Metadata.Id, doc.Metadata.Name = "urn:doc", "sweep"
			n := &sbom.Node{Id: "a", Name: "a", Hashes: map[int32]string{a: strings.Repeat("0f", digestHexLen[a]/2)}}
			if file {
				n.Type = sbom.Node_FILE
			}
			doc.NodeList.Nodes = []*sbom.Node{n}
			d2, out, err := roundTrip(doc, formats.SPDX23JSON, 2)
			if err == nil {
				err = compareDocs(doc, d2, spdxProj, true)
			}
			if err != nil {
				hx.RecordFailure("C01Sweep", fmt.Sprintf("checksum algorithm %v: %v", sbom.HashAlgorithm(a), err), map[string]any{"algo": a, "file": file})
				t.Fatalf("checksum algorithm %v: %v\n%s", sbom.HashAlgorithm(a), err, trunc(string(out), 1500))
			}
			hx.NonTrivial(hx.Digest("sweep-algo", a, file))
		}
	}
	for p := range spdxNativePurpose {
		hx.Eval()
		doc := sbom.NewDocument()
		doc.Metadata.Id, doc.Metadata.Name = "urn:doc", "sweep"
		doc.NodeList.Nodes = []*sbom.Node{{Id: "a", Name: "a", PrimaryPurpose: []sbom.Purpose{p, sbom.Purpose_DATA}, Identifiers: map[int32]string{1: "pkg:npm/b@1", 2: "cpe:/a:vendor:product:1.0", 3: "cpe:2.3:a:vendor:product:1.0:*:*:*:*:*:*:*", 4: "gitoid:blob:sha1:" + strings.Repeat("0a", 20)}}, {Id: "z"}}
		d2, out, err := roundTrip(doc, formats.SPDX23JSON, 2)
		if err == nil {
			err = compareDocs(doc, d2, spdxProj, true)
		}
		if err != nil {
			hx.RecordFailure("C01Sweep", fmt.Sprintf("purpose %v: %v", p, err), map[string]any{"purpose": int32(p)})
			t.Fatalf("purpose %v: %v\n%s", p, err, trunc(string(out), 1500))
		}
		hx.NonTrivial(hx.Digest("sweep-purpose", p))
	}
	hx.SetExhaustive(true)
	hx.Note("sweep: 44 relationship types x 4 indents, 16 checksum algorithms x {package,file}, 12 native purposes with 4 identifier kinds")
}
