package props

import (
	"encoding/json"
	"fmt"
	"os"
	"regexp"
	"sort"
	"strings"
	"testing"
	"unicode/utf8"

	"github.com/protobom/protobom/pkg/formats"
	"github.com/protobom/protobom/pkg/sbom"
	"pgregory.net/rapid"
	"verif/harness/hx"
)

// ---- CycloneDX expressibility tables, written from the CycloneDX 1.4 / 1.5 JSON schemas ------------------

// component types: schema enum -> protobom purpose that names it natively
var cdxNativePurpose = map[sbom.Purpose]string{
	sbom.Purpose_APPLICATION: "application", sbom.Purpose_FRAMEWORK: "framework", sbom.Purpose_LIBRARY: "library",
	sbom.Purpose_CONTAINER: "container", sbom.Purpose_OPERATING_SYSTEM: "operating-system", sbom.Purpose_DEVICE: "device",
	sbom.Purpose_FIRMWARE: "firmware", sbom.Purpose_FILE: "file",
	// added in 1.5
	sbom.Purpose_PLATFORM: "platform", sbom.Purpose_DEVICE_DRIVER: "device-driver", sbom.Purpose_MACHINE_LEARNING_MODEL: "machine-learning-model", sbom.Purpose_DATA: "data",
}
var cdxOnly15Purpose = map[sbom.Purpose]bool{sbom.Purpose_PLATFORM: true, sbom.Purpose_DEVICE_DRIVER: true, sbom.Purpose_MACHINE_LEARNING_MODEL: true, sbom.Purpose_DATA: true}

// purposes whose component type is "file": a PACKAGE node carrying one of them comes back as a FILE node
var cdxFilePurposes = map[sbom.Purpose]bool{sbom.Purpose_FILE: true, sbom.Purpose_PATCH: true, sbom.Purpose_SOURCE: true, sbom.Purpose_ARCHIVE: true}

// external reference types: protobom type -> CycloneDX name; the 1.4 schema has only the first group
var cdxExtRef14 = map[sbom.ExternalReference_ExternalReferenceType]string{
	sbom.ExternalReference_VCS: "vcs", sbom.ExternalReference_ISSUE_TRACKER: "issue-tracker", sbom.ExternalReference_WEBSITE: "website",
	sbom.ExternalReference_SECURITY_ADVISORY: "advisories", sbom.ExternalReference_BOM: "bom", sbom.ExternalReference_MAILING_LIST: "mailing-list",
	sbom.ExternalReference_SOCIAL: "social", sbom.ExternalReference_CHAT: "chat", sbom.ExternalReference_DOCUMENTATION: "documentation",
	sbom.ExternalReference_SUPPORT: "support", sbom.ExternalReference_DOWNLOAD: "distribution", sbom.ExternalReference_LICENSE: "license",
	sbom.ExternalReference_BUILD_META: "build-meta", sbom.ExternalReference_BUILD_SYSTEM: "build-system",
	sbom.ExternalReference_RELEASE_NOTES: "release-notes", sbom.ExternalReference_OTHER: "other",
}
var cdxExtRef15 = map[sbom.ExternalReference_ExternalReferenceType]string{
	sbom.ExternalReference_DISTRIBUTION_INTAKE: "distribution-intake", sbom.ExternalReference_SECURITY_CONTACT: "security-contact",
	sbom.ExternalReference_MODEL_CARD: "model-card", sbom.ExternalReference_LOG: "log", sbom.ExternalReference_CONFIGURATION: "configuration",
	sbom.ExternalReference_EVIDENCE: "evidence", sbom.ExternalReference_FORMULATION: "formulation", sbom.ExternalReference_ATTESTATION: "attestation",
	sbom.ExternalReference_SECURITY_THREAT_MODEL: "threat-model", sbom.ExternalReference_SECURITY_ADVERSARY_MODEL: "adversary-model",
	sbom.ExternalReference_RISK_ASSESSMENT: "risk-assessment", sbom.ExternalReference_VULNERABILITY_ASSERTION: "vulnerability-assertion",
	sbom.ExternalReference_VULNERABILITY_EXPLOITABILITY_ASSESSMENT: "exploitability-statement", sbom.ExternalReference_SECURITY_PENTEST_REPORT: "pentest-report",
	sbom.ExternalReference_STATIC_ANALYSIS_REPORT: "static-analysis-report", sbom.ExternalReference_DYNAMIC_ANALYSIS_REPORT: "dynamic-analysis-report",
	sbom.ExternalReference_RUNTIME_ANALYSIS_REPORT: "runtime-analysis-report", sbom.ExternalReference_COMPONENT_ANALYSIS_REPORT: "component-analysis-report",
	sbom.ExternalReference_MATURITY_REPORT: "maturity-report", sbom.ExternalReference_CERTIFICATION_REPORT: "certification-report",
	sbom.ExternalReference_CODIFIED_INFRASTRUCTURE: "codified-infrastructure", sbom.ExternalReference_QUALITY_METRICS: "quality-metrics",
	sbom.ExternalReference_POAM: "poam",
}

// hash algorithms of the CycloneDX schemas (all twelve exist in 1.4 and 1.5)
func cdxAlgo(a int32) bool { return a >= 1 && a <= 12 }

// the serialNumber pattern of the CycloneDX schemas (a serial number outside it is not expressible: it may be written
// as it is, replaced or left out)
var cdxSerialRe = regexp.MustCompile(`^urn:uuid:[0-9a-f]{8}-[0-9a-f]{4}-[1-5][0-9a-f]{3}-[89ab][0-9a-f]{3}-[0-9a-f]{12}$`)

// the hash-content pattern of the CycloneDX 1.3-1.5 JSON schemas
var cdxHashContentRe = regexp.MustCompile(`^([a-fA-F0-9]{32}|[a-fA-F0-9]{40}|[a-fA-F0-9]{64}|[a-fA-F0-9]{96}|[a-fA-F0-9]{128})$`)

// well-formed package identifiers (the CycloneDX schema constrains the cpe member by a pattern; a serializer may leave
// out a value that is no CPE name, and a purl that is no purl)
func genPurl(t *rapid.T, label string) string {
	return "pkg:" + rapid.SampledFrom([]string{"npm", "deb", "golang", "maven"}).Draw(t, label+".ty") + "/" +
		rapid.StringMatching(`[a-z][a-z0-9-]{0,7}`).Draw(t, label+".n") + "@" + rapid.StringMatching(`[0-9]\.[0-9]{1,2}`).Draw(t, label+".v")
}

func genCPE23(t *rapid.T, label string) string {
	return "cpe:2.3:a:" + rapid.StringMatching(`[a-z][a-z0-9_]{0,6}`).Draw(t, label+".vd") + ":" + rapid.StringMatching(`[a-z][a-z0-9_]{0,6}`).Draw(t, label+".pr") +
		":" + rapid.StringMatching(`[0-9]\.[0-9]`).Draw(t, label+".v") + ":*:*:*:*:*:*:*"
}

func genCPE22(t *rapid.T, label string) string {
	return "cpe:/a:" + rapid.StringMatching(`[a-z][a-z0-9_]{0,6}`).Draw(t, label+".vd") + ":" + rapid.StringMatching(`[a-z][a-z0-9_]{0,6}`).Draw(t, label+".pr") +
		":" + rapid.StringMatching(`[0-9]\.[0-9]`).Draw(t, label+".v")
}

// hashValue draws a well-formed digest of the given algorithm: hexadecimal, of the algorithm's output length.
func hashValue(t *rapid.T, label string, algo int32) string {
	// (contents that are no digest of their algorithm - other text, another length - are exercised by the totality checks
	// C04 / C07: a validating writer or reader may leave such an entry out or refuse the document, so the round-trip and
	// translation generators stay inside what every format calls a checksum of that algorithm)
	n, ok := digestHexLen[algo]
	if !ok {
		n = 64
	}
	return rapid.StringOfN(rapid.RuneFrom([]rune("0123456789abcdefABCDEF")), n, n, -1).Draw(t, label+".hex")
}

// hexadecimal digits of a digest, per sbom.HashAlgorithm number (variable-length algorithms: their common 256-bit form)
var digestHexLen = map[int32]int{1: 32, 2: 40, 3: 64, 4: 96, 5: 128, 6: 64, 7: 96, 8: 128, 9: 64, 10: 96, 11: 128, 12: 64, 13: 32, 14: 8, 15: 32, 16: 64, 17: 56}

// the seven lifecycle phases protobom maps
var cdxLifecycleTypes = []sbom.DocumentType_SBOMType{sbom.DocumentType_DESIGN, sbom.DocumentType_SOURCE, sbom.DocumentType_BUILD,
	sbom.DocumentType_ANALYZED, sbom.DocumentType_DEPLOYED, sbom.DocumentType_DISCOVERY, sbom.DocumentType_DECOMISSION}

// ---- generator ----------------------------------------------------------------------------------------

func cdxText() *rapid.Generator[string] {
	// arbitrary unicode text: valid UTF-8 including characters JSON has to escape
	return rapid.OneOf(hx.TextPlain(), hx.TextAny().Filter(utf8.ValidString), rapid.SampledFrom([]string{"a\"b", "<a>&", "a\\b", "tab\there", "nl\nx", " "}))
}

func genCDXNode(t *rapid.T, id string) *sbom.Node {
	tx := cdxText()
	n := &sbom.Node{Id: id}
	opt := func(l string) string {
		if rapid.Bool().Draw(t, l+"?") {
			return tx.Draw(t, l)
		}
		return ""
	}
	n.Name, n.Version, n.Description, n.Copyright = opt("name"), opt("version"), opt("desc"), opt("copyright")
	if rapid.IntRange(0, 3).Draw(t, "isfile") == 0 {
		n.Type = sbom.Node_FILE
		if rapid.Bool().Draw(t, "filepurp") {
			n.PrimaryPurpose = []sbom.Purpose{sbom.Purpose_FILE}
		}
	} else {
		for i := rapid.IntRange(0, 2).Draw(t, "npurp"); i > 0; i-- {
			p := sbom.Purpose(rapid.IntRange(0, nPurposes-1).Draw(t, "purp"))
			if len(n.PrimaryPurpose) == 0 && cdxFilePurposes[p] {
				hx.Excluded("package_node_with_file_like_first_purpose")
				continue
			}
			n.PrimaryPurpose = append(n.PrimaryPurpose, p)
		}
	}
	// at most one licence: the parser keeps only the first entry (known finding KF-01)
	n.Licenses = rapid.SliceOfN(hx.TextName(), 0, 1).Draw(t, "lic")
	for i := rapid.IntRange(0, 4).Draw(t, "nh"); i > 0; i-- {
		if n.Hashes == nil {
			n.Hashes = map[int32]string{}
		}
		algo := int32(rapid.IntRange(0, 17).Draw(t, "algo"))
		n.Hashes[algo] = hashValue(t, "hv", algo)
	}
	if rapid.Bool().Draw(t, "haspurl") {
		n.Identifiers = map[int32]string{1: genPurl(t, "purl")}
	}
	switch rapid.IntRange(0, 3).Draw(t, "cpe") {
	case 1:
		n.Identifiers = setID(n.Identifiers, 3, genCPE23(t, "cpe23"))
	case 2:
		n.Identifiers = setID(n.Identifiers, 2, genCPE22(t, "cpe22"))
	case 3:
		n.Identifiers = setID(n.Identifiers, 3, genCPE23(t, "cpe23"))
		n.Identifiers = setID(n.Identifiers, 2, genCPE22(t, "cpe22"))
	}
	for i := rapid.IntRange(0, 3).Draw(t, "ner"); i > 0; i-- {
		er := &sbom.ExternalReference{Url: tx.Draw(t, "erurl"), Comment: tx.Draw(t, "ercm"), Authority: tx.Draw(t, "erau"),
			Type: sbom.ExternalReference_ExternalReferenceType(rapid.IntRange(0, nExtRefTypes-1).Draw(t, "ert"))}
		for j := rapid.IntRange(0, 2).Draw(t, "nerh"); j > 0; j-- {
			if er.Hashes == nil {
				er.Hashes = map[int32]string{}
			}
			eralgo := int32(rapid.IntRange(0, 17).Draw(t, "eralgo"))
			er.Hashes[eralgo] = hashValue(t, "erhv", eralgo)
		}
		n.ExternalReferences = append(n.ExternalReferences, er)
	}
	return n
}

func setID(m map[int32]string, k int32, v string) map[int32]string {
	if m == nil {
		m = map[int32]string{}
	}
	m[k] = v
	return m
}

type treeEdge struct{ P, C string }

// buildTreeDoc assembles the document from nodes (ids[0] is the root), parent choices and an edge layout.
func buildTreeDoc(nodes []*sbom.Node, parents []int, edgeOrder []int, merge bool, nodeOrder []int) *sbom.Document {
	doc := sbom.NewDocument()
	doc.NodeList.RootElements = []string{nodes[0].Id}
	pairs := []treeEdge{}
	for i := 1; i < len(nodes); i++ {
		pairs = append(pairs, treeEdge{nodes[parents[i-1]].Id, nodes[i].Id})
	}
	for _, k := range edgeOrder {
		p := pairs[k]
		if merge {
			if e := doc.NodeList.GetEdgeByType(p.P, sbom.Edge_contains); e != nil {
				e.To = append(e.To, p.C)
				continue
			}
		}
		doc.NodeList.Edges = append(doc.NodeList.Edges, &sbom.Edge{From: p.P, Type: sbom.Edge_contains, To: []string{p.C}})
	}
	for _, k := range nodeOrder {
		doc.NodeList.Nodes = append(doc.NodeList.Nodes, nodes[k])
	}
	return doc
}

func identityPerm(n int) []int {
	p := make([]int, n)
	for i := range p {
		p[i] = i
	}
	return p
}

type cdxCase struct {
	Doc     *sbom.Document
	Format  formats.Format
	Depth   int
	Layout  string
	Parents []int
}

func genCDXDoc(t *rapid.T) cdxCase {
	ids := rapid.SliceOfNDistinct(hx.CDXID(), 1, 10, rapid.ID[string]).Draw(t, "ids")
	nodes := make([]*sbom.Node, len(ids))
	for i, id := range ids {
		nodes[i] = genCDXNode(t, id)
	}
	parents := make([]int, 0, len(ids))
	depthOf := make([]int, len(ids))
	depthOf[0] = 1
	maxDepth := 1
	deep := rapid.Bool().Draw(t, "deep")
	for i := 1; i < len(ids); i++ {
		p := rapid.IntRange(0, i-1).Draw(t, "parent")
		if deep && rapid.IntRange(0, 2).Draw(t, "chain") > 0 {
			p = i - 1
		}
		parents = append(parents, p)
		depthOf[i] = depthOf[p] + 1
		if depthOf[i] > maxDepth {
			maxDepth = depthOf[i]
		}
	}
	ne := len(ids) - 1
	layout := rapid.SampledFrom([]string{"random", "parent_first", "child_first"}).Draw(t, "layout")
	var order []int
	switch layout {
	case "parent_first":
		order = identityPerm(ne)
	case "child_first":
		order = identityPerm(ne)
		for i, j := 0, ne-1; i < j; i, j = i+1, j-1 {
			order[i], order[j] = order[j], order[i]
		}
	default:
		order = hx.Permute(t, "eperm", identityPerm(ne))
	}
	merge := rapid.Bool().Draw(t, "merge")
	doc := buildTreeDoc(nodes, parents, order, merge, hx.Permute(t, "nperm", identityPerm(len(ids))))
	// the serial number: mostly what the schema admits (an RFC 4122 URN), sometimes arbitrary text or none
	if rapid.IntRange(0, 3).Draw(t, "serialkind") > 0 {
		doc.Metadata.Id = "urn:uuid:" + rapid.StringMatching(`[0-9a-f]{8}-[0-9a-f]{4}-[1-5][0-9a-f]{3}-[89ab][0-9a-f]{3}-[0-9a-f]{12}`).Draw(t, "uuid")
	} else {
		doc.Metadata.Id = hx.TextPlain().Draw(t, "serial")
	}
	doc.Metadata.Version = fmt.Sprintf("%d", rapid.IntRange(1, 100000).Draw(t, "ver")) // (the schema's minimum is 1)
	// Metadata.Name replaces the root component's name on output (known finding KF-03): keep them equal
	if rapid.Bool().Draw(t, "docname") {
		doc.Metadata.Name = nodes[0].Name
	}
	for i := rapid.IntRange(0, 3).Draw(t, "ndt"); i > 0; i-- {
		if rapid.IntRange(0, 3).Draw(t, "custom") == 0 {
			name, desc := hx.TextName().Draw(t, "dtname"), cdxText().Draw(t, "dtdesc")
			doc.Metadata.DocumentTypes = append(doc.Metadata.DocumentTypes, &sbom.DocumentType{Name: &name, Description: &desc})
		} else {
			ty := rapid.SampledFrom(cdxLifecycleTypes).Draw(t, "dtt")
			doc.Metadata.DocumentTypes = append(doc.Metadata.DocumentTypes, &sbom.DocumentType{Type: &ty})
		}
	}
	f := rapid.SampledFrom([]formats.Format{formats.CDX14JSON, formats.CDX15JSON}).Draw(t, "fmt")
	return cdxCase{Doc: doc, Format: f, Depth: maxDepth, Layout: layout, Parents: parents}
}

// ---- projection -------------------------------------------------------------------------------------------

func cdxHashes(m map[int32]string) string {
	hs := []string{}
	for a, v := range m {
		// expressible = what the CycloneDX schemas admit as hash content (hex of one of five lengths): a value outside
		// that pattern (empty, arbitrary text) may be written, dropped or refused
		if cdxAlgo(a) && cdxHashContentRe.MatchString(v) {
			hs = append(hs, fmt.Sprintf("%d=%s", a, v))
		}
	}
	return joinSorted(hs)
}

func cdxProjFor(v15 bool) func(n *sbom.Node, wildcard bool) proj {
	return func(n *sbom.Node, wildcard bool) proj {
		p := proj{}
		p["name"], p["version"], p["description"], p["copyright"] = n.Name, n.Version, n.Description, n.Copyright
		p["kind"] = n.Type.String()
		first := sbom.Purpose_UNKNOWN_PURPOSE
		if len(n.PrimaryPurpose) > 0 {
			first = n.PrimaryPurpose[0]
		}
		switch {
		case n.Type == sbom.Node_FILE:
			// (the statement fixes the file kind; whether a file reads back with a FILE purpose, with its own or with none
			// is the reader's choice: not compared)
		case cdxNativePurpose[first] != "" && (v15 || !cdxOnly15Purpose[first]):
			p["primary_purpose"] = first.String()
		case wildcard:
			p["primary_purpose"] = wildcardMark
		default:
			p["primary_purpose"] = first.String()
		}
		p["hashes"] = cdxHashes(n.Hashes)
		p["purl"] = n.Identifiers[1]
		v23, has23 := n.Identifiers[3]
		v22, has22 := n.Identifiers[2]
		switch {
		case has23 && has22 && wildcard:
			p["cpe"], p["cpe_alt"] = v23, v22 // CycloneDX holds one CPE: which of the two survives is the serializer's choice
		case has23:
			p["cpe"] = v23
		default:
			p["cpe"] = v22
		}
		p["licenses"] = strings.Join(n.Licenses, "\x00")
		// external references: URL, comment and hashes of every reference survive (compared as a set: references
		// that render identically are one reference); the type survives exactly when the target version can
		// express it — which expressible type an inexpressible one degrades to is the serializer's choice
		all, native := []string{}, []string{}
		for _, e := range n.ExternalReferences {
			body := fmt.Sprintf("%s|%s|%s", e.Url, e.Comment, cdxHashes(e.Hashes))
			all = append(all, body)
			_, n14 := cdxExtRef14[e.Type]
			_, n15 := cdxExtRef15[e.Type]
			if n14 || (n15 && v15) {
				native = append(native, e.Type.String()+"|"+body)
			}
		}
		p["external_references"] = joinSorted(dedupe(all))
		p["extref_native"] = joinSorted(dedupe(native))
		return p
	}
}

// relaxExtRefs rewrites the types of got's references that want marked "?" so that both sides compare equal
// whichever of the two admissible outcomes happened.
func cdxCompare(want, got *sbom.Document, v15, wildcard bool) error {
	return compareDocsCDX(want, got, cdxProjFor(v15), wildcard)
}

func compareDocsCDX(want, got *sbom.Document, pf func(n *sbom.Node, wildcard bool) proj, wildcard bool) error {
	ws, gs := hx.GraphSets(want.NodeList), hx.GraphSets(got.NodeList)
	if d := setsDiff(gs, ws); d != "" {
		return fmt.Errorf("node set / containment tree / root differs:%s", d)
	}
	idx := map[string]*sbom.Node{}
	for _, n := range got.NodeList.Nodes {
		idx[n.Id] = n
	}
	for _, n := range want.NodeList.Nodes {
		w, g := pf(n, wildcard), pf(idx[n.Id], false)
		keys := make([]string, 0, len(w))
		for k := range w {
			keys = append(keys, k)
		}
		sort.Strings(keys)
		for _, k := range keys {
			if k == "primary_purpose" && w[k] == wildcardMark {
				// a purpose CycloneDX has no component type for may come back absent, as a native type, or as itself
				if g[k] != "UNKNOWN_PURPOSE" && !cdxNativeName(g[k]) && (len(n.PrimaryPurpose) == 0 || g[k] != n.PrimaryPurpose[0].String()) {
					return fmt.Errorf("node %q: purpose came back as %q, which is neither a native component type nor the node's own", n.Id, g[k])
				}
				continue
			}
			if k == "primary_purpose" && !wildcard && (w[k] == "UNKNOWN_PURPOSE" || g[k] == "UNKNOWN_PURPOSE") {
				if (w[k] == "UNKNOWN_PURPOSE" || w[k] == "") != (g[k] == "UNKNOWN_PURPOSE" || g[k] == "") {
					return fmt.Errorf("node %q attribute %s: got %q want %q", n.Id, k, g[k], w[k])
				}
				continue
			}
			if k == "cpe_alt" {
				continue
			}
			if alt, both := w["cpe_alt"]; k == "cpe" && both {
				if g[k] != w[k] && g[k] != alt {
					return fmt.Errorf("node %q: CPE came back as %q, want one of %q / %q", n.Id, g[k], w[k], alt)
				}
				continue
			}
			if k == "extref_native" {
				// every natively typed reference comes back with its type (the other side may hold more typed
				// entries: degraded ones)
				have := map[string]bool{}
				for _, e := range strings.Split(g[k], "\x00") {
					have[e] = true
				}
				for _, e := range strings.Split(w[k], "\x00") {
					if e != "" && !have[e] {
						return fmt.Errorf("node %q: external reference %q did not come back with its type (got %q)", n.Id, e, g[k])
					}
				}
				continue
			}
			if g[k] != w[k] {
				return fmt.Errorf("node %q attribute %s: got %q want %q", n.Id, k, g[k], w[k])
			}
		}
	}
	return nil
}

func cdxNativeName(s string) bool {
	for p := range cdxNativePurpose {
		if p.String() == s {
			return true
		}
	}
	return false
}

func lifecycleKey(dts []*sbom.DocumentType) string {
	var ks []string
	for _, dt := range dts {
		if dt.Type != nil {
			ks = append(ks, "T:"+dt.Type.String())
		} else {
			ks = append(ks, fmt.Sprintf("N:%q D:%q", dt.GetName(), dt.GetDescription()))
		}
	}
	return joinSorted(dedupe(ks)) // which lifecycle types the document has (how often one is listed is not stated)
}

func cdxRoundTripCheck(c cdxCase) error {
	v15 := c.Format == formats.CDX15JSON
	d2, out, err := roundTrip(c.Doc, c.Format, 2)
	if err != nil {
		return fmt.Errorf("CycloneDX round trip failed: %v\n%s", err, trunc(string(out), 1200))
	}
	if err := cdxCompare(c.Doc, d2, v15, true); err != nil {
		return fmt.Errorf("CycloneDX %s write-then-read (depth %d, edge layout %s): %v\n doc: %s\n out: %s", c.Format.Version(), c.Depth, c.Layout, err, hx.RefKeyOrdered(c.Doc, ""), trunc(string(out), 2500))
	}
	// (a document without serial number may be given one by the writer)
	if (cdxSerialRe.MatchString(c.Doc.Metadata.Id) && d2.Metadata.GetId() != c.Doc.Metadata.Id) || d2.Metadata.GetVersion() != c.Doc.Metadata.Version {
		return fmt.Errorf("serial number / version not preserved: got (%q,%q) want (%q,%q)", d2.Metadata.GetId(), d2.Metadata.GetVersion(), c.Doc.Metadata.Id, c.Doc.Metadata.Version)
	}
	if v15 && lifecycleKey(d2.Metadata.DocumentTypes) != lifecycleKey(c.Doc.Metadata.DocumentTypes) {
		return fmt.Errorf("lifecycle types not preserved at 1.5: got %q want %q", lifecycleKey(d2.Metadata.DocumentTypes), lifecycleKey(c.Doc.Metadata.DocumentTypes))
	}
	d3, out2, err := roundTrip(d2, c.Format, 2)
	if err != nil {
		return fmt.Errorf("second CycloneDX round trip failed: %v\n%s", err, trunc(string(out2), 1200))
	}
	if err := cdxCompare(d2, d3, v15, false); err != nil {
		return fmt.Errorf("a second write-then-read pass changes the document: %v", err)
	}
	if d3.Metadata.GetId() != d2.Metadata.GetId() || d3.Metadata.GetVersion() != d2.Metadata.GetVersion() || (v15 && lifecycleKey(d3.Metadata.DocumentTypes) != lifecycleKey(d2.Metadata.DocumentTypes)) {
		return fmt.Errorf("a second pass changes serial number, version or lifecycles")
	}
	return nil
}

func c02Property(t *rapid.T) {
	hx.Eval()
	c := genCDXDoc(t)
	anyFile, refHashes := false, false
	for _, n := range c.Doc.NodeList.Nodes {
		anyFile = anyFile || n.Type == sbom.Node_FILE
		for _, e := range n.ExternalReferences {
			refHashes = refHashes || len(e.Hashes) > 0
		}
	}
	hx.Class("layout:" + c.Layout)
	hx.Class(fmt.Sprintf("depth:%d", min(c.Depth, 6)))
	hx.Class("format:" + c.Format.Version())
	hx.ClassIf(anyFile, "file_node")
	hx.ClassIf(refHashes, "reference_with_hashes")
	if (c.Depth >= 3 && c.Layout != "child_first") || anyFile || refHashes {
		if hx.NonTrivial(hx.Digest(hx.Snapshot(c.Doc), c.Format)) {
			hx.Sample(func() any {
				return map[string]any{"format": c.Format, "depth": c.Depth, "layout": c.Layout, "node_list": hx.DescribeNL(c.Doc.NodeList)}
			})
		}
	}
	if err := cdxRoundTripCheck(c); err != nil {
		t.Fatalf("%v", err)
	}
}

func TestC02(t *testing.T) { rapid.Check(t, c02Property) }

// ---- exhaustive: every recursive tree with <=5 nodes x every permutation of its edge list -------------------

type c02Enum struct {
	N       int
	Parents []int
	Order   []int
	Merge   bool
	Reverse bool
	V15     bool
}

func (e c02Enum) toCase() cdxCase {
	nodes := make([]*sbom.Node, e.N)
	for i := range nodes {
		nodes[i] = &sbom.Node{Id: fmt.Sprintf("n%d", i), Name: fmt.Sprintf("name%d", i), Version: "1"}
	}
	no := identityPerm(e.N)
	if e.Reverse {
		for i, j := 0, e.N-1; i < j; i, j = i+1, j-1 {
			no[i], no[j] = no[j], no[i]
		}
	}
	doc := buildTreeDoc(nodes, e.Parents, e.Order, e.Merge, no)
	doc.Metadata.Id, doc.Metadata.Version = "urn:uuid:3e671687-395b-41f5-a30f-a58921a69b79", "3"
	f := formats.CDX14JSON
	if e.V15 {
		f = formats.CDX15JSON
	}
	depth := 1
	d := make([]int, e.N)
	d[0] = 1
	for i := 1; i < e.N; i++ {
		d[i] = d[e.Parents[i-1]] + 1
		if d[i] > depth {
			depth = d[i]
		}
	}
	return cdxCase{Doc: doc, Format: f, Depth: depth, Layout: fmt.Sprint(e.Order), Parents: e.Parents}
}

func permutations(n int) [][]int {
	if n == 0 {
		return [][]int{{}}
	}
	var out [][]int
	var rec func(cur []int, used []bool)
	rec = func(cur []int, used []bool) {
		if len(cur) == n {
			out = append(out, append([]int{}, cur...))
			return
		}
		for i := 0; i < n; i++ {
			if !used[i] {
				used[i] = true
				rec(append(cur, i), used)
				used[i] = false
			}
		}
	}
	rec(nil, make([]bool, n))
	return out
}

func TestC02Exhaustive(t *testing.T) {
	shard, shards := hx.Shard()
	cnt := 0
	for n := 1; n <= 5; n++ {
		// all parent vectors: parents[i-1] in [0, i-1]
		var pvs [][]int
		var rec func(cur []int)
		rec = func(cur []int) {
			if len(cur) == n-1 {
				pvs = append(pvs, append([]int{}, cur...))
				return
			}
			for p := 0; p <= len(cur); p++ {
				rec(append(cur, p))
			}
		}
		rec(nil)
		for _, pv := range pvs {
			for _, order := range permutations(n - 1) {
				for _, merge := range []bool{false, true} {
					for _, rev := range []bool{false, true} {
						for _, v15 := range []bool{false, true} {
							cnt++
							if cnt%shards != shard {
								continue
							}
							e := c02Enum{N: n, Parents: pv, Order: order, Merge: merge, Reverse: rev, V15: v15}
							hx.Eval()
							c := e.toCase()
							if err := cdxRoundTripCheck(c); err != nil {
								hx.RecordFailure("C02Exhaustive", err.Error(), e)
								t.Fatalf("%v", err)
							}
							if c.Depth >= 3 {
								hx.NonTrivial(hx.Digest("enum", fmt.Sprint(e)))
								if cnt%701 == 0 {
									hx.Sample(func() any { return map[string]any{"enumerated_tree": e, "node_list": hx.DescribeNL(c.Doc.NodeList)} })
								}
							}
						}
					}
				}
			}
		}
	}
	hx.SetExhaustive(true)
	hx.Note("all recursive trees with <=5 nodes x all permutations of the edge list x {split,merged edges} x {node order, reversed} x {1.4,1.5}: %d cases [shard %d/%d]", cnt, shard, shards)
}

func TestC02Replay(t *testing.T) {
	path := os.Getenv("VERIF_REPLAY")
	if path == "" {
		t.Skip("no VERIF_REPLAY")
	}
	data, err := os.ReadFile(path)
	if err != nil {
		t.Fatal(err)
	}
	var e c02Enum
	if err := json.Unmarshal(data, &e); err != nil {
		t.Fatalf("HARNESS-SELFTEST cannot decode replay: %v", err)
	}
	if err := cdxRoundTripCheck(e.toCase()); err != nil {
		t.Fatal(err)
	}
}

// ---- known findings ------------------------------------------------------------------------------------

// KF-01: the CycloneDX parser keeps only the first licence of a component.
func kf01Witness() bool {
	doc := sbom.NewDocument()
	doc.Metadata.Id = "urn:uuid:3e671687-395b-41f5-a30f-a58921a69b79"
	doc.NodeList.AddRootNode(&sbom.Node{Id: "a", Name: "a", Licenses: []string{"MIT", "Apache-2.0"}})
	d2, _, err := roundTrip(doc, formats.CDX15JSON, 2)
	if err != nil || len(d2.NodeList.Nodes) != 1 {
		return true
	}
	return strings.Join(d2.NodeList.Nodes[0].Licenses, ",") != "MIT,Apache-2.0"
}

// KF-03: the root component's name is replaced by Metadata.Name on CycloneDX output.
func kf03Witness() bool {
	doc := sbom.NewDocument()
	doc.Metadata.Id = "urn:uuid:3e671687-395b-41f5-a30f-a58921a69b79"
	doc.Metadata.Name = "the document"
	doc.NodeList.AddRootNode(&sbom.Node{Id: "a", Name: "the root"})
	d2, _, err := roundTrip(doc, formats.CDX15JSON, 2)
	if err != nil || len(d2.NodeList.Nodes) != 1 {
		return true
	}
	return d2.NodeList.Nodes[0].Name != "the root"
}

func TestC02Findings(t *testing.T) {
	hx.Eval()
	runFindings(t, "C02", map[string]func() bool{"KF-01": kf01Witness, "KF-03": kf03Witness})
}
