package props

import (
	"fmt"
	"testing"

	"github.com/protobom/protobom/pkg/sbom"
	"google.golang.org/protobuf/proto"
	"google.golang.org/protobuf/reflect/protoreflect"
	"google.golang.org/protobuf/types/known/timestamppb"
	"pgregory.net/rapid"
	"verif/harness/hx"
)

// ---- reference model of union on the set view -------------------------------------------------

func refUnion(a, b hx.Sets) hx.Sets {
	r := hx.Sets{Nodes: map[string]int{}, Triples: map[hx.Triple]struct{}{}, Roots: map[string]struct{}{}}
	for k := range a.Nodes {
		r.Nodes[k] = 1
	}
	for k := range b.Nodes {
		r.Nodes[k] = 1
	}
	for k := range a.Roots {
		r.Roots[k] = struct{}{}
	}
	for k := range b.Roots {
		r.Roots[k] = struct{}{}
	}
	for k := range a.Triples {
		r.Triples[k] = struct{}{}
	}
	for k := range b.Triples {
		r.Triples[k] = struct{}{}
	}
	r.Triples = hx.RestrictTriples(r.Triples, r.Nodes)
	return r
}

func setsDiff(got, want hx.Sets) string {
	if got.Key() == want.Key() {
		return ""
	}
	return fmt.Sprintf("\n got: %s\nwant: %s", got.Key(), want.Key())
}

func nodeByID(nl *sbom.NodeList, id string) *sbom.Node {
	for _, n := range nl.GetNodes() {
		if n.GetId() == id {
			return n
		}
	}
	return nil
}

var nodeIdentityFields = map[protoreflect.Name]bool{"id": true, "type": true}

// zeroTimestamp: the field is a set google.protobuf.Timestamp without seconds and nanoseconds.
func zeroTimestamp(m protoreflect.Message, fd protoreflect.FieldDescriptor) bool {
	if fd.Message() == nil || fd.IsList() || fd.IsMap() || fd.Message().FullName() != "google.protobuf.Timestamp" || !m.Has(fd) {
		return false
	}
	ts := m.Get(fd).Message()
	return ts.Get(ts.Descriptor().Fields().ByName("seconds")).Int() == 0 && ts.Get(ts.Descriptor().Fields().ByName("nanos")).Int() == 0
}

// checkPrecedence verifies, per attribute, result = winner's value if non-empty else loser's.
func checkPrecedence(t fataler, what string, res, winner, loser *sbom.Node) {
	fds := res.ProtoReflect().Descriptor().Fields()
	for i := 0; i < fds.Len(); i++ {
		fd := fds.Get(i)
		if nodeIdentityFields[fd.Name()] {
			continue
		}
		// list-valued attributes are compared as sets (whether a merge keeps repeated members is not stated)
		want := hx.RefSetKey(winner.ProtoReflect(), fd, false)
		winnerEmpty := hx.FieldEmpty(winner.ProtoReflect(), fd)
		if oo := fd.ContainingOneof(); oo != nil && !oo.IsSynthetic() {
			// the alternative forms of a oneof are one attribute: it is empty when no member is set
			winnerEmpty = winner.ProtoReflect().WhichOneof(oo) == nil
		}
		if winnerEmpty {
			want = hx.RefSetKey(loser.ProtoReflect(), fd, false)
		}
		got := hx.RefSetKey(res.ProtoReflect(), fd, false)
		if got != want {
			// a date that is present but all-zero (the Unix epoch) may or may not count as "non-empty": then either
			// operand's value is admissible
			if zeroTimestamp(winner.ProtoReflect(), fd) || zeroTimestamp(loser.ProtoReflect(), fd) {
				if got == hx.RefSetKey(loser.ProtoReflect(), fd, false) || got == hx.RefSetKey(winner.ProtoReflect(), fd, false) || !res.ProtoReflect().Has(fd) {
					hx.Class("precedence:zero_timestamp_read_as_empty")
					continue
				}
			}
			t.Fatalf("%s: node %q attribute %s = %s, want %s (winner %s, other %s)", what, res.Id, fd.Name(), got, want,
				hx.RefFieldKey(winner.ProtoReflect(), fd, false), hx.RefFieldKey(loser.ProtoReflect(), fd, false))
		}
	}
	if res.Type != winner.Type && res.Type != loser.Type {
		t.Fatalf("%s: node %q kind %v is neither operand's", what, res.Id, res.Type)
	}
}

func cloneNL(nl *sbom.NodeList) *sbom.NodeList { return proto.Clone(nl).(*sbom.NodeList) }

// two id/type domains: five letters with two edge types (dense overlaps), and ids that extend one another by a
// digit with all 45 edge-type numbers (keys built by concatenation collide there)
var digitIDs = []string{"n", "n1", "n11", "n2", "lib", "lib1"}
var allEdgeTypes = func() []sbom.Edge_Type {
	var out []sbom.Edge_Type
	for i := 0; i <= 44; i++ {
		out = append(out, sbom.Edge_Type(i))
	}
	return out
}()

func genOperandIn(t *rapid.T, label string, digits bool) *sbom.NodeList {
	o := hx.GraphOpts{WellFormed: rapid.Bool().Draw(t, label+".wf"), Extra: []string{"x", "y"}}
	if digits {
		o.IDs, o.Types, o.MaxEdges = digitIDs, allEdgeTypes, 8
		o.Extra = []string{"n3"}
	}
	return hx.GenNodeList(t, label, o)
}

func genOperand(t *rapid.T, label string) *sbom.NodeList { return genOperandIn(t, label, false) }

// nearEqualize rewrites, for one node id shared by a and b, b's node into a copy of a's node that differs only in
// ways a coarse comparison cannot see (sub-second part of a date), so that "second operand wins" is observable
// only through the exact value.
func nearEqualize(t *rapid.T, a, b *sbom.NodeList) bool {
	for i, nb := range b.Nodes {
		na := nodeByID(a, nb.Id)
		if na == nil || rapid.IntRange(0, 1).Draw(t, "nearEq") != 0 {
			continue
		}
		c := proto.Clone(na).(*sbom.Node)
		if c.ReleaseDate == nil {
			na.ReleaseDate = &timestamppb.Timestamp{Seconds: 1700000000, Nanos: 5}
			c.ReleaseDate = &timestamppb.Timestamp{Seconds: 1700000000, Nanos: 5}
		}
		c.ReleaseDate.Nanos = (c.ReleaseDate.Nanos + 7) % 1000000000
		b.Nodes[i] = c
		return true
	}
	return false
}

func c09Property(t *rapid.T) {
	hx.Eval()
	digits := rapid.IntRange(0, 3).Draw(t, "digitDomain") == 0
	a, b, c := genOperandIn(t, "A", digits), genOperandIn(t, "B", digits), genOperandIn(t, "C", digits)
	hx.ClassIf(digits, "digit_suffixed_ids_all_edge_types")
	hx.ClassIf(nearEqualize(t, a, b), "shared_node_differing_only_below_the_second")
	sa, sb, sc := hx.GraphSets(a), hx.GraphSets(b), hx.GraphSets(c)

	// classification
	shared, sharedDiff := 0, 0
	for _, n := range a.Nodes {
		if m := nodeByID(b, n.Id); m != nil {
			shared++
			if hx.RefKey(n, false) != hx.RefKey(m, false) {
				sharedDiff++
			}
		}
	}
	onlyA, onlyB := false, false
	for tr := range sa.Triples {
		if _, ok := sb.Triples[tr]; !ok {
			onlyA = true
		}
	}
	for tr := range sb.Triples {
		if _, ok := sa.Triples[tr]; !ok {
			onlyB = true
		}
	}
	hx.ClassIf(shared > 0, "shared_nodes")
	hx.ClassIf(sharedDiff > 0, "shared_nodes_differing_attrs")
	hx.ClassIf(hx.WellFormed(a, false) != nil || hx.WellFormed(b, false) != nil, "ill_formed_operand")
	hx.ClassIf(len(a.Nodes) == 0 || len(b.Nodes) == 0, "empty_operand")
	if sharedDiff > 0 && onlyA && onlyB {
		d := hx.Digest(hx.Snapshot(a), hx.Snapshot(b), hx.Snapshot(c))
		if hx.NonTrivial(d) {
			hx.Sample(func() any {
				return map[string]string{"A": hx.DescribeNL(a), "B": hx.DescribeNL(b), "C": hx.DescribeNL(c)}
			})
		}
	}

	// --- Union: set semantics against the reference model
	u := cloneNL(a).Union(cloneNL(b))
	if u == nil {
		t.Fatalf("Union returned nil")
	}
	want := refUnion(sa, sb)
	if d := setsDiff(hx.GraphSets(u), want); d != "" {
		t.Fatalf("A∪B differs from the set model: A=%s B=%s%s", hx.DescribeNL(a), hx.DescribeNL(b), d)
	}
	// laws (each compared with the model composed the same way, and with each other where the model agrees)
	uba := cloneNL(b).Union(cloneNL(a))
	if d := setsDiff(hx.GraphSets(uba), hx.GraphSets(u)); d != "" {
		t.Fatalf("union not commutative on sets: A=%s B=%s%s", hx.DescribeNL(a), hx.DescribeNL(b), d)
	}
	uaa := cloneNL(a).Union(cloneNL(a))
	if d := setsDiff(hx.GraphSets(uaa), refUnion(sa, sa)); d != "" {
		t.Fatalf("A∪A differs from A restricted to present nodes: A=%s%s", hx.DescribeNL(a), d)
	}
	empty := sbom.NewNodeList()
	if d := setsDiff(hx.GraphSets(cloneNL(a).Union(empty)), refUnion(sa, hx.GraphSets(empty))); d != "" {
		t.Fatalf("A∪∅ wrong: A=%s%s", hx.DescribeNL(a), d)
	}
	if d := setsDiff(hx.GraphSets(sbom.NewNodeList().Union(cloneNL(a))), refUnion(hx.GraphSets(empty), sa)); d != "" {
		t.Fatalf("∅∪A wrong: A=%s%s", hx.DescribeNL(a), d)
	}
	if d := setsDiff(hx.GraphSets(cloneNL(a).Union(&sbom.NodeList{})), refUnion(sa, hx.GraphSets(empty))); d != "" {
		t.Fatalf("A∪(zero value list) wrong: A=%s%s", hx.DescribeNL(a), d)
	}
	l := cloneNL(a).Union(cloneNL(b)).Union(cloneNL(c))
	r := cloneNL(a).Union(cloneNL(b).Union(cloneNL(c)))
	ml, mr := refUnion(refUnion(sa, sb), sc), refUnion(sa, refUnion(sb, sc))
	if d := setsDiff(hx.GraphSets(l), ml); d != "" {
		t.Fatalf("(A∪B)∪C differs from model: A=%s B=%s C=%s%s", hx.DescribeNL(a), hx.DescribeNL(b), hx.DescribeNL(c), d)
	}
	if d := setsDiff(hx.GraphSets(r), mr); d != "" {
		t.Fatalf("A∪(B∪C) differs from model: A=%s B=%s C=%s%s", hx.DescribeNL(a), hx.DescribeNL(b), hx.DescribeNL(c), d)
	}
	if ml.Key() == mr.Key() {
		hx.Class("assoc_law_applicable")
		if d := setsDiff(hx.GraphSets(l), hx.GraphSets(r)); d != "" {
			t.Fatalf("union not associative: %s", d)
		}
	}
	// each node id once
	if err := dupFree(u); err != nil {
		t.Fatalf("A∪B: %v", err)
	}

	// --- attribute precedence: second operand wins when non-empty
	for _, n := range u.Nodes {
		na, nb := nodeByID(a, n.Id), nodeByID(b, n.Id)
		switch {
		case na != nil && nb != nil:
			checkPrecedence(t, "Union", n, nb, na)
		// a node of one operand only: the same comparison as for shared nodes, against an empty partner (lists as sets,
		// a present-but-all-zero date may come out as no date)
		case na != nil:
			checkPrecedence(t, "Union (node present only in A)", n, na, &sbom.Node{Id: n.Id, Type: na.Type})
		case nb != nil:
			checkPrecedence(t, "Union (node present only in B)", n, nb, &sbom.Node{Id: n.Id, Type: nb.Type})
		}
	}

	// --- Add: same sets, in place, receiver's non-empty attributes win
	recv := cloneNL(a)
	recv.Add(cloneNL(b))
	if d := setsDiff(hx.GraphSets(recv), want); d != "" {
		t.Fatalf("A.Add(B) differs from the set model: A=%s B=%s%s", hx.DescribeNL(a), hx.DescribeNL(b), d)
	}
	if err := dupFree(recv); err != nil {
		t.Fatalf("A.Add(B): %v", err)
	}
	for _, n := range recv.Nodes {
		na, nb := nodeByID(a, n.Id), nodeByID(b, n.Id)
		switch {
		case na != nil && nb != nil:
			checkPrecedence(t, "Add", n, na, nb)
		case na != nil:
			checkPrecedence(t, "Add (node present only in the receiver)", n, na, &sbom.Node{Id: n.Id, Type: na.Type})
		case nb != nil:
			checkPrecedence(t, "Add (node present only in the argument)", n, nb, &sbom.Node{Id: n.Id, Type: nb.Type})
		}
	}
}

func dupFree(nl *sbom.NodeList) error {
	seen := map[string]bool{}
	for _, n := range nl.Nodes {
		if seen[n.Id] {
			return fmt.Errorf("node id %q occurs more than once", n.Id)
		}
		seen[n.Id] = true
	}
	return nil
}

func TestC09(t *testing.T) { rapid.Check(t, c09Property) }
