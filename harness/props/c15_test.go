package props

import (
	"encoding/json"
	"fmt"
	"google.golang.org/protobuf/proto"
	"os"
	"testing"
	"time"

	"github.com/protobom/protobom/pkg/sbom"
	"pgregory.net/rapid"
	"verif/harness/hx"
)

// refReach is the reference: breadth-first levels from start (start is level one); a root element other
// than start may be reached (if inclRoots) but is never expanded. maxLevels<0 means unbounded.
// Returns the reached node set and the set of triples the traversal followed.
func refReach(nl *sbom.NodeList, start string, maxLevels int, inclRoots bool) (map[string]int, map[hx.Triple]struct{}) {
	nodes := map[string]bool{}
	for _, n := range nl.Nodes {
		nodes[n.Id] = true
	}
	roots := map[string]bool{}
	for _, r := range nl.RootElements {
		roots[r] = true
	}
	res := map[string]int{}
	followed := map[hx.Triple]struct{}{}
	if !nodes[start] {
		return res, followed
	}
	level := []string{start}
	res[start] = 1
	for l := 1; (maxLevels < 0 || l < maxLevels) && len(level) > 0; l++ {
		next := []string{}
		for _, u := range level {
			if roots[u] && u != start {
				continue
			}
			for _, e := range nl.Edges {
				if e.From != u {
					continue
				}
				for _, v := range e.To {
					if !nodes[v] {
						continue
					}
					if roots[v] && v != start && !inclRoots {
						continue
					}
					followed[hx.Triple{From: u, Type: e.Type, To: v}] = struct{}{}
					if res[v] == 0 {
						res[v] = 1
						next = append(next, v)
					}
				}
			}
		}
		level = next
	}
	return res, followed
}

type c15Case struct {
	NL    *sbom.NodeList
	Start string
	Depth int
}

func (c c15Case) String() string {
	return fmt.Sprintf("start=%q depth=%d graph: %s", c.Start, c.Depth, hx.DescribeNL(c.NL))
}

// checkExtraction verifies one extraction result against the reference.
func checkExtraction(what string, c c15Case, res *sbom.NodeList, wantNodes map[string]int, followed map[hx.Triple]struct{}) error {
	orig := hx.GraphSets(c.NL)
	if len(wantNodes) == 0 {
		// a start identifier that is no node of the list is outside "all start nodes": the call must return (it did),
		// what it returns is not stated
		if len(res.GetNodes()) != 0 || len(res.GetEdges()) != 0 {
			hx.Class("absent_start_returned_something")
		}
		return nil
	}
	if res == nil {
		return fmt.Errorf("%s returned nil for a present start node", what)
	}
	got := hx.GraphSets(res)
	for k, cnt := range got.Nodes {
		if wantNodes[k] == 0 {
			return fmt.Errorf("%s returned node %q which is not reachable within the bound", what, k)
		}
		if cnt != 1 {
			return fmt.Errorf("%s returned node %q %d times", what, k, cnt)
		}
	}
	for k := range wantNodes {
		if got.Nodes[k] == 0 {
			return fmt.Errorf("%s lacks reachable node %q (got %v)", what, k, hx.SortedKeys(got.Nodes))
		}
	}
	for tr := range got.Triples {
		if _, ok := orig.Triples[tr]; !ok {
			return fmt.Errorf("%s invented edge %s", what, tr)
		}
		if got.Nodes[tr.From] == 0 || got.Nodes[tr.To] == 0 {
			return fmt.Errorf("%s keeps edge %s with an endpoint outside the returned nodes", what, tr)
		}
	}
	for tr := range followed {
		if _, ok := got.Triples[tr]; !ok {
			return fmt.Errorf("%s lacks followed edge %s", what, tr)
		}
	}
	if len(got.Roots) != 1 {
		return fmt.Errorf("%s roots = %v, want exactly the start node", what, res.RootElements)
	}
	if _, ok := got.Roots[c.Start]; !ok {
		return fmt.Errorf("%s roots = %v, want exactly the start node", what, res.RootElements)
	}
	// pointers returned are the list's own nodes
	for _, n := range res.Nodes {
		if m := nodeByID(c.NL, n.Id); m == nil || hx.RefKey(m, false) != hx.RefKey(n, false) {
			return fmt.Errorf("%s returned node %q with content differing from the list's", what, n.Id)
		}
	}
	return nil
}

// c15Check runs the three extractions at one (graph, start, depth) and returns the first deviation.
func c15Check(c c15Case) error {
	// the graph is used for several extractions in a row; the reference works on a pristine copy, so that an
	// extraction which disturbs its receiver shows up in the later ones
	live := c.NL
	c.NL = cloneNL(live)
	before := hx.Snapshot(live)
	defer func() { _ = before }()
	return c15CheckOn(c, live, before)
}

func c15CheckOn(c c15Case, live *sbom.NodeList, before string) error {
	g := live.NodeGraph(c.Start)
	wn, fol := refReach(c.NL, c.Start, -1, false)
	if err := checkExtraction("NodeGraph", c, g, wn, fol); err != nil {
		return err
	}
	s := live.NodeSiblings(c.Start)
	wn, fol = refReach(c.NL, c.Start, 2, true)
	if c.Start == "" {
		wn, fol = map[string]int{}, map[hx.Triple]struct{}{}
	}
	if err := checkExtraction("NodeSiblings", c, s, wn, fol); err != nil {
		return err
	}
	var prev hx.Sets
	for d := 1; d <= c.Depth; d++ {
		r := live.NodeDescendants(c.Start, d)
		wn, fol = refReach(c.NL, c.Start, d, true)
		if err := checkExtraction(fmt.Sprintf("NodeDescendants(depth %d)", d), c, r, wn, fol); err != nil {
			return err
		}
		cur := hx.GraphSets(r)
		if d > 1 && len(wn) > 0 { // (monotonicity is stated for start nodes of the graph)
			for k := range prev.Nodes {
				if cur.Nodes[k] == 0 {
					return fmt.Errorf("NodeDescendants not monotone: node %q at depth %d missing at depth %d", k, d-1, d)
				}
			}
			for tr := range prev.Triples {
				if _, ok := cur.Triples[tr]; !ok {
					return fmt.Errorf("NodeDescendants not monotone: edge %s at depth %d missing at depth %d", tr, d-1, d)
				}
			}
		}
		prev = cur
	}
	// and once more in the opposite order: deepest first, then the full graph
	for d := c.Depth; d >= 1; d-- {
		r := live.NodeDescendants(c.Start, d)
		wn, fol = refReach(c.NL, c.Start, d, true)
		if err := checkExtraction(fmt.Sprintf("NodeDescendants(depth %d, second round)", d), c, r, wn, fol); err != nil {
			return err
		}
	}
	g = live.NodeGraph(c.Start)
	wn, fol = refReach(c.NL, c.Start, -1, false)
	if err := checkExtraction("NodeGraph (after the other extractions)", c, g, wn, fol); err != nil {
		return err
	}
	// (whether an extraction leaves its receiver untouched is C11's clause; here a receiver that was changed shows as a
	// wrong result of a later extraction, since the reference is computed on a pristine clone)
	if hx.Snapshot(live) != before {
		hx.Class("receiver_representation_changed_by_extraction")
	}
	return nil
}

func c15Timed(t fataler, c c15Case) {
	var err error
	// on an ill-formed list (an edge endpoint or root that is no node) the statement promises termination only: the
	// calls are made under the watchdog, what they return is not compared (dangling endpoints may be skipped, kept or
	// given placeholder nodes)
	if hx.WellFormed(&sbom.NodeList{Nodes: c.NL.GetNodes(), Edges: c.NL.GetEdges()}, false) != nil {
		withWatchdog(t, 5*time.Second, "sub-graph extraction on "+c.String(), func() {
			live := proto.Clone(c.NL).(*sbom.NodeList)
			_ = live.NodeGraph(c.Start)
			_ = live.NodeSiblings(c.Start)
			for d := 1; d <= c.Depth; d++ {
				_ = live.NodeDescendants(c.Start, d)
			}
		})
		hx.Class("ill_formed:termination_only")
		return
	}
	withWatchdog(t, 5*time.Second, "sub-graph extraction on "+c.String(), func() { err = c15Check(c) })
	if err != nil {
		t.Fatalf("%v\n  case: %s", err, c)
	}
}

func hasCycle(nl *sbom.NodeList) bool {
	adj := map[string][]string{}
	for _, e := range nl.Edges {
		adj[e.From] = append(adj[e.From], e.To...)
	}
	state := map[string]int{}
	var visit func(u string) bool
	visit = func(u string) bool {
		state[u] = 1
		for _, v := range adj[u] {
			if state[v] == 1 {
				return true
			}
			if state[v] == 0 && visit(v) {
				return true
			}
		}
		state[u] = 2
		return false
	}
	for _, n := range nl.Nodes {
		if state[n.Id] == 0 && visit(n.Id) {
			return true
		}
	}
	return false
}

func c15Property(t *rapid.T) {
	hx.Eval()
	nl := hx.GenNodeList(t, "G", hx.GraphOpts{WellFormed: rapid.Bool().Draw(t, "wf"), MaxEdges: 8,
		Types:   []sbom.Edge_Type{sbom.Edge_contains, sbom.Edge_dependsOn, sbom.Edge_other},
		NodeGen: func(t *rapid.T, id string) *sbom.Node { return &sbom.Node{Id: id, Name: "n-" + id} }})
	start := rapid.SampledFrom(append([]string{"zz", ""}, hx.SmallIDs...)).Draw(t, "start")
	if len(nl.Nodes) > 0 && rapid.IntRange(0, 9).Draw(t, "startPresent") > 0 {
		start = nl.Nodes[rapid.IntRange(0, len(nl.Nodes)-1).Draw(t, "startIdx")].Id
	}
	depth := rapid.IntRange(1, 6).Draw(t, "depth")
	c := c15Case{NL: nl, Start: start, Depth: depth}
	hx.Journal([]byte(mustJSON(c)))

	cyc := hasCycle(nl)
	reach, _ := refReach(nl, start, -1, true)
	secondRoot := false
	for _, r := range nl.RootElements {
		if r != start && reach[r] > 0 {
			secondRoot = true
		}
	}
	hx.ClassIf(cyc, "cyclic")
	hx.ClassIf(secondRoot, "second_root_reachable")
	hx.ClassIf(len(reach) == 0, "absent_start")
	hx.ClassIf(hx.WellFormed(nl, false) != nil, "ill_formed")
	if (cyc || secondRoot) && len(reach) > 0 {
		if hx.NonTrivial(hx.Digest(hx.Snapshot(nl), start, depth)) {
			hx.Sample(func() any { return c.String() })
		}
	}
	c15Timed(t, c)

	// independence of node and edge order (and of how targets are grouped into edges), for start nodes of the graph
	if nodeByID(nl, start) == nil || hx.WellFormed(&sbom.NodeList{Nodes: nl.Nodes, Edges: nl.Edges}, false) != nil {
		return
	}
	p := &sbom.NodeList{Nodes: hx.Permute(t, "pn", nl.Nodes), Edges: hx.Permute(t, "pe", nl.Edges), RootElements: hx.Permute(t, "pr", nl.RootElements)}
	for _, pair := range [][2]*sbom.NodeList{
		{nl.NodeGraph(start), p.NodeGraph(start)},
		{nl.NodeSiblings(start), p.NodeSiblings(start)},
		{nl.NodeDescendants(start, depth), p.NodeDescendants(start, depth)},
	} {
		if d := setsDiff(hx.GraphSets(pair[1]), hx.GraphSets(pair[0])); d != "" {
			t.Fatalf("extraction depends on node/edge order: %s\n  case: %s", d, c)
		}
	}
}

func mustJSON(v any) string {
	b, err := json.Marshal(v)
	if err != nil {
		return fmt.Sprintf("%+v", v)
	}
	return string(b)
}

func TestC15(t *testing.T) { rapid.Check(t, c15Property) }

// ---- bounded-exhaustive enumeration ----------------------------------------------------------------

// graphFromCode decodes the code-th graph over n nodes and nt edge types: bit ((f*nt+ty)*n+to) says
// whether the triple (f,ty,to) is present; edges are stored one per (from,type).
func graphFromCode(n, nt int, code uint64, rootMask int) *sbom.NodeList {
	types := []sbom.Edge_Type{sbom.Edge_contains, sbom.Edge_dependsOn}
	nl := &sbom.NodeList{}
	for i := 0; i < n; i++ {
		nl.Nodes = append(nl.Nodes, &sbom.Node{Id: hx.SmallIDs[i]})
		if rootMask&(1<<i) != 0 {
			nl.RootElements = append(nl.RootElements, hx.SmallIDs[i])
		}
	}
	for f := 0; f < n; f++ {
		for ty := 0; ty < nt; ty++ {
			var tos []string
			for to := 0; to < n; to++ {
				if code&(1<<uint((f*nt+ty)*n+to)) != 0 {
					tos = append(tos, hx.SmallIDs[to])
				}
			}
			if len(tos) > 0 {
				nl.Edges = append(nl.Edges, &sbom.Edge{From: hx.SmallIDs[f], Type: types[ty], To: tos})
			}
		}
	}
	return nl
}

type c15Enum struct {
	N, NT    int
	Code     uint64
	RootMask int
	Start    int // index, N = absent
	Depth    int
}

func (e c15Enum) toCase() c15Case {
	start := "zz"
	if e.Start < e.N {
		start = hx.SmallIDs[e.Start]
	}
	return c15Case{NL: graphFromCode(e.N, e.NT, e.Code, e.RootMask), Start: start, Depth: e.Depth}
}

func runC15Enum(t *testing.T, n, nt int) {
	shard, shards := hx.Shard()
	bits := uint(n * nt * n)
	total := uint64(1) << bits
	for code := uint64(shard); code < total; code += uint64(shards) {
		for rm := 0; rm < 1<<n; rm++ {
			for start := 0; start <= n; start++ {
				e := c15Enum{N: n, NT: nt, Code: code, RootMask: rm, Start: start, Depth: 5}
				c := e.toCase()
				hx.Eval()
				if err := c15Check(c); err != nil {
					hx.RecordFailure("C15Exhaustive", err.Error()+"\n  case: "+c.String(), e)
					t.Fatalf("%v\n  case: %s", err, c)
				}
				if start < n && (hasCycle(c.NL) || rm&^(1<<start) != 0) {
					hx.NonTrivial(hx.Digest("enum", n, nt, code, rm, start))
					if code%977 == 5 {
						hx.Sample(func() any { return c.String() })
					}
				}
			}
		}
	}
	hx.Note("enumerated all %d graphs over %d nodes and %d edge type(s) (one edge per source/type) x all %d root subsets x all starts (incl. absent) x depths 1..5 [shard %d/%d]", total, n, nt, 1<<n, shard, shards)
}

func TestC15Exhaustive(t *testing.T) {
	runC15Enum(t, 1, 2)
	runC15Enum(t, 2, 2)
	runC15Enum(t, 3, 1)
	if hx.Thorough() {
		runC15Enum(t, 3, 2)
		runC15Enum(t, 4, 1)
	}
	hx.SetExhaustive(true)
}

// TestC15Replay re-executes one saved case (journal of the random search, or an enumerated case).
func TestC15Replay(t *testing.T) {
	path := os.Getenv("VERIF_REPLAY")
	if path == "" {
		t.Skip("no VERIF_REPLAY")
	}
	data, err := os.ReadFile(path)
	if err != nil {
		t.Fatal(err)
	}
	var e c15Enum
	if json.Unmarshal(data, &e) == nil && e.N > 0 {
		c15Timed(t, e.toCase())
		return
	}
	var c c15Case
	if err := json.Unmarshal(data, &c); err != nil {
		t.Fatalf("HARNESS-SELFTEST cannot decode replay: %v", err)
	}
	c15Timed(t, c)
}
