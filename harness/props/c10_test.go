package props

import (
	"testing"

	"github.com/protobom/protobom/pkg/sbom"
	"pgregory.net/rapid"
	"verif/harness/hx"
)

func c10Property(t *rapid.T) {
	hx.Eval()
	digits := rapid.IntRange(0, 3).Draw(t, "digitDomain") == 0
	a, b := genOperandIn(t, "A", digits), genOperandIn(t, "B", digits)
	hx.ClassIf(digits, "digit_suffixed_ids_all_edge_types")
	hx.ClassIf(nearEqualize(t, a, b), "shared_node_differing_only_below_the_second")
	sa, sb := hx.GraphSets(a), hx.GraphSets(b)
	common := map[string]int{}
	for k := range sa.Nodes {
		if sb.Nodes[k] > 0 {
			common[k] = 1
		}
	}
	crossing := false
	for tr := range sa.Triples {
		if (common[tr.From] > 0) != (common[tr.To] > 0) {
			crossing = true
		}
	}
	for tr := range sb.Triples {
		if (common[tr.From] > 0) != (common[tr.To] > 0) {
			crossing = true
		}
	}
	minLen := len(sa.Nodes)
	if len(sb.Nodes) < minLen {
		minLen = len(sb.Nodes)
	}
	hx.ClassIf(len(common) == 0, "disjoint")
	hx.ClassIf(len(common) > 0 && len(common) == minLen, "nested_or_identical")
	hx.ClassIf(crossing, "edge_crossing_boundary")
	hx.ClassIf(hx.WellFormed(a, false) != nil || hx.WellFormed(b, false) != nil, "ill_formed_operand")
	if len(common) > 0 && len(common) < minLen && crossing {
		if hx.NonTrivial(hx.Digest(hx.Snapshot(a), hx.Snapshot(b))) {
			hx.Sample(func() any { return map[string]string{"A": hx.DescribeNL(a), "B": hx.DescribeNL(b)} })
		}
	}

	check := func(what string, x, y *sbom.NodeList, res *sbom.NodeList) hx.Sets {
		sx, sy := hx.GraphSets(x), hx.GraphSets(y)
		// (a nil result reads as the empty list)
		sr := hx.GraphSets(res)
		inter := map[string]int{}
		for k := range sx.Nodes {
			if sy.Nodes[k] > 0 {
				inter[k] = 1
			}
		}
		// nodes: exactly those present in both, each once
		for k, c := range sr.Nodes {
			if inter[k] == 0 {
				t.Fatalf("%s contains node %q not present in both operands: X=%s Y=%s", what, k, hx.DescribeNL(x), hx.DescribeNL(y))
			}
			if c != 1 {
				t.Fatalf("%s contains node %q %d times", what, k, c)
			}
		}
		for k := range inter {
			if sr.Nodes[k] == 0 {
				t.Fatalf("%s lacks node %q present in both operands: X=%s Y=%s", what, k, hx.DescribeNL(x), hx.DescribeNL(y))
			}
		}
		// roots: ⊆ (Rx ∪ Ry) ∩ nodes ; ⊇ Rx ∩ Ry ∩ nodes
		for r := range sr.Roots {
			_, inX := sx.Roots[r]
			_, inY := sy.Roots[r]
			if !(inX || inY) || inter[r] == 0 {
				t.Fatalf("%s has root %q that is not a surviving root of an operand: X=%s Y=%s got roots %v", what, r, hx.DescribeNL(x), hx.DescribeNL(y), res.GetRootElements())
			}
		}
		for r := range sx.Roots {
			if _, inY := sy.Roots[r]; inY && inter[r] > 0 {
				if _, ok := sr.Roots[r]; !ok {
					t.Fatalf("%s lost %q which is a root of both operands and survives: X=%s Y=%s", what, r, hx.DescribeNL(x), hx.DescribeNL(y))
				}
			}
		}
		// edges: ⊆ (Ex ∪ Ey)|nodes ; ⊇ (Ex ∩ Ey)|nodes
		for tr := range sr.Triples {
			_, inX := sx.Triples[tr]
			_, inY := sy.Triples[tr]
			if !(inX || inY) {
				t.Fatalf("%s invented edge %s: X=%s Y=%s", what, tr, hx.DescribeNL(x), hx.DescribeNL(y))
			}
			if inter[tr.From] == 0 || inter[tr.To] == 0 {
				t.Fatalf("%s keeps edge %s with a non-surviving endpoint: X=%s Y=%s", what, tr, hx.DescribeNL(x), hx.DescribeNL(y))
			}
		}
		for tr := range sx.Triples {
			if _, inY := sy.Triples[tr]; inY && inter[tr.From] > 0 && inter[tr.To] > 0 {
				if _, ok := sr.Triples[tr]; !ok {
					t.Fatalf("%s lost edge %s found in both operands with surviving endpoints: X=%s Y=%s", what, tr, hx.DescribeNL(x), hx.DescribeNL(y))
				}
			}
		}
		// attributes of survivors: second operand wins when non-empty
		for _, n := range res.GetNodes() {
			checkPrecedence(t, what, n, nodeByID(y, n.Id), nodeByID(x, n.Id))
		}
		// (the kind of a surviving node - PACKAGE or FILE when the operands disagree - is identity rather than an attribute
		// under the precedence rule: the library's own tests pin that merging never changes it. Which operand's kind the
		// result carries is counted, not asserted; checkPrecedence requires it to be one of the two.)
		if u := cloneNL(x).Union(cloneNL(y)); u != nil {
			for _, n := range res.GetNodes() {
				if un := nodeByID(u, n.Id); un != nil && un.Type != n.Type {
					hx.Class("intersect_kind_differs_from_union")
				}
			}
		}
		return sr
	}

	iab := cloneNL(a).Intersect(cloneNL(b))
	iba := cloneNL(b).Intersect(cloneNL(a))
	sab := check("A∩B", a, b, iab)
	sba := check("B∩A", b, a, iba)
	if d := setsDiff(sab, sba); d != "" {
		t.Fatalf("intersection not commutative on sets: A=%s B=%s%s", hx.DescribeNL(a), hx.DescribeNL(b), d)
	}
	// idempotent: A∩A has A's nodes, A's roots that are nodes, A's edges restricted
	iaa := cloneNL(a).Intersect(cloneNL(a))
	saa := check("A∩A", a, a, iaa)
	wantAA := hx.Sets{Nodes: map[string]int{}, Triples: hx.RestrictTriples(sa.Triples, sa.Nodes), Roots: map[string]struct{}{}}
	for k := range sa.Nodes {
		wantAA.Nodes[k] = 1
	}
	for r := range sa.Roots {
		if sa.Nodes[r] > 0 {
			wantAA.Roots[r] = struct{}{}
		}
	}
	if d := setsDiff(saa, wantAA); d != "" {
		t.Fatalf("A∩A differs from A restricted to its nodes: A=%s%s", hx.DescribeNL(a), d)
	}
	// absorption: nodes(A ∩ (A∪B)) = nodes(A)
	abs := cloneNL(a).Intersect(cloneNL(a).Union(cloneNL(b)))
	sabs := check("A∩(A∪B)", a, cloneNL(a).Union(cloneNL(b)), abs)
	for k := range sa.Nodes {
		if sabs.Nodes[k] != 1 {
			t.Fatalf("A∩(A∪B) lacks A's node %q: A=%s B=%s", k, hx.DescribeNL(a), hx.DescribeNL(b))
		}
	}
	if len(sabs.Nodes) != len(sa.Nodes) {
		t.Fatalf("A∩(A∪B) has %d nodes, A has %d", len(sabs.Nodes), len(sa.Nodes))
	}
	// empty list annihilates
	for _, e := range []*sbom.NodeList{sbom.NewNodeList(), {}} {
		r1 := cloneNL(a).Intersect(e)
		r2 := cloneNL(e).Intersect(cloneNL(a))
		if len(r1.GetNodes())+len(r1.GetEdges())+len(r1.GetRootElements()) != 0 {
			t.Fatalf("A∩∅ is not empty: %s", hx.DescribeNL(r1))
		}
		if len(r2.GetNodes())+len(r2.GetEdges())+len(r2.GetRootElements()) != 0 {
			t.Fatalf("∅∩A is not empty: %s", hx.DescribeNL(r2))
		}
	}
}

func TestC10(t *testing.T) { rapid.Check(t, c10Property) }
