package hx

import (
	"crypto/sha256"
	"encoding/hex"
	"encoding/json"
	"fmt"
	"os"
	"sort"
	"strconv"
	"sync"
)

// Per-process statistics of a check run. One test binary process runs exactly one property's test
// (the driver passes -test.run), so one global collector suffices. Everything here is counted by the
// machinery while cases execute; the driver merges the per-process files into evidence/<id>.json.

type statsFile struct {
	Evaluations int64            `json:"evaluations"`
	NonTrivial  []string         `json:"nontrivial_digests"`
	Classes     map[string]int64 `json:"classes"`
	Excluded    map[string]int64 `json:"excluded"`
	Samples     []any            `json:"samples"`
	Findings    map[string]int64 `json:"findings"`
	Notes       []string         `json:"notes"`
	Exhaustive  bool             `json:"exhaustive"`
	Failures    []Failure        `json:"failures"`
	Info        map[string]any   `json:"info"`
}

// Failure is one property violation recorded by the harness (besides rapid's own fail file).
type Failure struct {
	Sub     string `json:"sub"`
	Message string `json:"message"`
	Case    any    `json:"case,omitempty"`
}

var (
	mu         sync.Mutex
	evals      int64
	digests    = map[string]struct{}{}
	classes    = map[string]int64{}
	excluded   = map[string]int64{}
	findings   = map[string]int64{}
	samples    []any
	notes      []string
	failures   []Failure
	info       = map[string]any{}
	exhaustive bool
	maxSamples = 5
)

// Eval counts one executed case.
func Eval() { mu.Lock(); evals++; mu.Unlock() }

// EvalN counts n executed cases.
func EvalN(n int) { mu.Lock(); evals += int64(n); mu.Unlock() }

// Digest returns a short stable digest of the canonical description of a case.
func Digest(parts ...any) string {
	h := sha256.New()
	for _, p := range parts {
		fmt.Fprintf(h, "%v\x00", p)
	}
	return hex.EncodeToString(h.Sum(nil)[:7])
}

// NonTrivial records a case that is non-trivial by the property's stated rule, identified by digest.
// Returns true when the digest was not seen before in this process.
func NonTrivial(digest string) bool {
	mu.Lock()
	defer mu.Unlock()
	if _, ok := digests[digest]; ok {
		return false
	}
	digests[digest] = struct{}{}
	return true
}

// Class increments a named class counter (the distribution the generator actually produced).
func Class(name string) { mu.Lock(); classes[name]++; mu.Unlock() }

// ClassIf increments the counter when cond holds.
func ClassIf(cond bool, name string) {
	if cond {
		Class(name)
	}
}

// Excluded counts a case (or part of one) kept out of the alarm-capable search by construction.
func Excluded(name string) { mu.Lock(); excluded[name]++; mu.Unlock() }

// Finding counts an observation of a listed known finding during the search.
func Finding(id string) { mu.Lock(); findings[id]++; mu.Unlock() }

// Sample keeps the first few non-trivial cases verbatim. f is only called when a slot is free.
func Sample(f func() any) {
	mu.Lock()
	defer mu.Unlock()
	if len(samples) >= maxSamples {
		return
	}
	samples = append(samples, f())
}

// WantSample reports whether a sample slot is still free (lets callers skip building one).
func WantSample() bool { mu.Lock(); defer mu.Unlock(); return len(samples) < maxSamples }

// Note records free text for the evidence file.
func Note(format string, a ...any) {
	mu.Lock()
	notes = append(notes, fmt.Sprintf(format, a...))
	mu.Unlock()
}

// Info records a named measured value.
func Info(key string, v any) { mu.Lock(); info[key] = v; mu.Unlock() }

// SetExhaustive marks that the run enumerated its finite space completely.
func SetExhaustive(b bool) { mu.Lock(); exhaustive = b; mu.Unlock() }

// RecordFailure stores a violation for the driver (in addition to failing the test).
func RecordFailure(sub, msg string, c any) {
	mu.Lock()
	if len(failures) < 20 {
		failures = append(failures, Failure{Sub: sub, Message: msg, Case: c})
	}
	mu.Unlock()
}

// Flush writes the statistics to $VERIF_STATS (no-op when unset).
func Flush() {
	path := os.Getenv("VERIF_STATS")
	if path == "" {
		return
	}
	mu.Lock()
	defer mu.Unlock()
	sf := statsFile{
		Evaluations: evals, Classes: classes, Excluded: excluded, Samples: samples,
		Findings: findings, Notes: notes, Exhaustive: exhaustive, Failures: failures, Info: info,
	}
	for d := range digests {
		sf.NonTrivial = append(sf.NonTrivial, d)
	}
	sort.Strings(sf.NonTrivial)
	data, err := json.Marshal(sf)
	if err != nil {
		// a sample that cannot be marshalled must not lose the counts
		sf.Samples = []any{fmt.Sprintf("unmarshalable samples: %v", err)}
		data, _ = json.Marshal(sf)
	}
	tmp := path + ".tmp"
	if err := os.WriteFile(tmp, data, 0o644); err == nil {
		_ = os.Rename(tmp, path)
	}
}

// Journal overwrites $VERIF_JOURNAL with the case about to be executed, so that a process death
// (os.Exit, fatal runtime error, watchdog kill) can be attributed to it and re-executed alone.
func Journal(data []byte) {
	path := os.Getenv("VERIF_JOURNAL")
	if path == "" {
		return
	}
	_ = os.WriteFile(path, data, 0o644)
}

// Tier returns "quick" or "thorough".
func Tier() string {
	if os.Getenv("VERIF_TIER") == "thorough" {
		return "thorough"
	}
	return "quick"
}

// Thorough reports whether the thorough tier is running.
func Thorough() bool { return Tier() == "thorough" }

// EnvInt reads an integer from the environment with a default.
func EnvInt(name string, def int) int {
	if v := os.Getenv(name); v != "" {
		if n, err := strconv.Atoi(v); err == nil {
			return n
		}
	}
	return def
}

// Shard returns this process's shard index and the shard count (thorough tier shards enumerations).
func Shard() (int, int) {
	n := EnvInt("VERIF_SHARDS", 1)
	if n < 1 {
		n = 1
	}
	return EnvInt("VERIF_SHARD", 0) % n, n
}
