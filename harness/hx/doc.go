// Package hx holds the shared building blocks of the verification harness.
package hx
