package hx

import (
	"bytes"
	"encoding/json"
	"fmt"
	"io"
	"regexp"
	"sort"
	"strings"
	"time"
	"unicode/utf8"
)

// JV is a small ordered JSON value: objects keep member order and duplicates.
type JV struct {
	Kind    byte // 'o' object, 'a' array, 's' string, 'n' number, 'b' bool, 'z' null
	Str     string
	Num     string
	Bool    bool
	Members []JMember
	Elems   []*JV
}

type JMember struct {
	Key string
	Val *JV
}

func JString(s string) *JV      { return &JV{Kind: 's', Str: s} }
func JNumber(n string) *JV      { return &JV{Kind: 'n', Num: n} }
func JBool(b bool) *JV          { return &JV{Kind: 'b', Bool: b} }
func JNull() *JV                { return &JV{Kind: 'z'} }
func JArray(es ...*JV) *JV      { return &JV{Kind: 'a', Elems: es} }
func JObject(ms ...JMember) *JV { return &JV{Kind: 'o', Members: ms} }
func M(k string, v *JV) JMember { return JMember{k, v} }

// ParseJV decodes JSON text into the ordered model.
func ParseJV(data []byte) (*JV, error) {
	dec := json.NewDecoder(bytes.NewReader(data))
	dec.UseNumber()
	v, err := parseJV(dec)
	if err != nil {
		return nil, err
	}
	if _, err := dec.Token(); err != io.EOF {
		return nil, fmt.Errorf("trailing data")
	}
	return v, nil
}

func parseJV(dec *json.Decoder) (*JV, error) {
	tok, err := dec.Token()
	if err != nil {
		return nil, err
	}
	switch t := tok.(type) {
	case json.Delim:
		switch t {
		case '{':
			o := &JV{Kind: 'o'}
			for dec.More() {
				kt, err := dec.Token()
				if err != nil {
					return nil, err
				}
				v, err := parseJV(dec)
				if err != nil {
					return nil, err
				}
				o.Members = append(o.Members, JMember{kt.(string), v})
			}
			_, err := dec.Token()
			return o, err
		case '[':
			a := &JV{Kind: 'a'}
			for dec.More() {
				v, err := parseJV(dec)
				if err != nil {
					return nil, err
				}
				a.Elems = append(a.Elems, v)
			}
			_, err := dec.Token()
			return a, err
		}
	case string:
		return JString(t), nil
	case json.Number:
		return JNumber(string(t)), nil
	case bool:
		return JBool(t), nil
	case nil:
		return JNull(), nil
	}
	return nil, fmt.Errorf("unexpected token %v", tok)
}

// Clone deep-copies the value.
func (v *JV) Clone() *JV {
	if v == nil {
		return nil
	}
	c := *v
	c.Members = nil
	c.Elems = nil
	for _, m := range v.Members {
		c.Members = append(c.Members, JMember{m.Key, m.Val.Clone()})
	}
	for _, e := range v.Elems {
		c.Elems = append(c.Elems, e.Clone())
	}
	return &c
}

// Get returns the last member with the key (last duplicate wins, as in encoding/json).
func (v *JV) Get(key string) *JV {
	if v == nil || v.Kind != 'o' {
		return nil
	}
	for i := len(v.Members) - 1; i >= 0; i-- {
		if v.Members[i].Key == key {
			return v.Members[i].Val
		}
	}
	return nil
}

// Set replaces (or appends) a member.
func (v *JV) Set(key string, val *JV) {
	for i := range v.Members {
		if v.Members[i].Key == key {
			v.Members[i].Val = val
			return
		}
	}
	v.Members = append(v.Members, JMember{key, val})
}

// EncOpts controls the tolerant encoder.
type EncOpts struct {
	Indent      string            // "" compact
	Space       func() string     // extra white space between tokens (may be nil)
	EscapeRune  func(r rune) bool // write r as \uXXXX (may be nil)
	EscapeSlash bool              // write / as \/
	Order       func(n int) []int // member order permutation (may be nil)
}

// Encode renders the value.
func (v *JV) Encode(o EncOpts) []byte {
	var b bytes.Buffer
	v.encode(&b, o, 0)
	return b.Bytes()
}

func (v *JV) encode(b *bytes.Buffer, o EncOpts, depth int) {
	sp := func() {
		if o.Space != nil {
			b.WriteString(o.Space())
		}
	}
	nl := func(d int) {
		if o.Indent != "" {
			b.WriteByte('\n')
			b.WriteString(strings.Repeat(o.Indent, d))
		}
	}
	switch v.Kind {
	case 'o':
		b.WriteByte('{')
		idx := make([]int, len(v.Members))
		for i := range idx {
			idx[i] = i
		}
		if o.Order != nil {
			idx = o.Order(len(v.Members))
		}
		for n, i := range idx {
			if n > 0 {
				b.WriteByte(',')
			}
			nl(depth + 1)
			sp()
			encodeString(b, v.Members[i].Key, o)
			sp()
			b.WriteByte(':')
			sp()
			v.Members[i].Val.encode(b, o, depth+1)
		}
		if len(idx) > 0 {
			nl(depth)
		}
		sp()
		b.WriteByte('}')
	case 'a':
		b.WriteByte('[')
		for n, e := range v.Elems {
			if n > 0 {
				b.WriteByte(',')
			}
			nl(depth + 1)
			sp()
			e.encode(b, o, depth+1)
		}
		if len(v.Elems) > 0 {
			nl(depth)
		}
		sp()
		b.WriteByte(']')
	case 's':
		encodeString(b, v.Str, o)
	case 'n':
		b.WriteString(v.Num)
	case 'b':
		if v.Bool {
			b.WriteString("true")
		} else {
			b.WriteString("false")
		}
	default:
		b.WriteString("null")
	}
}

func encodeString(b *bytes.Buffer, s string, o EncOpts) {
	b.WriteByte('"')
	for i := 0; i < len(s); {
		r, size := utf8.DecodeRuneInString(s[i:])
		if r == utf8.RuneError && size == 1 {
			b.WriteString(`�`)
			i++
			continue
		}
		switch {
		case r == '"':
			b.WriteString(`\"`)
		case r == '\\':
			b.WriteString(`\\`)
		case r == '/' && o.EscapeSlash:
			b.WriteString(`\/`)
		case r < 0x20:
			fmt.Fprintf(b, `\u%04x`, r)
		case o.EscapeRune != nil && o.EscapeRune(r):
			if r > 0xffff {
				r -= 0x10000
				fmt.Fprintf(b, `\u%04x\u%04x`, 0xd800+(r>>10), 0xdc00+(r&0x3ff))
			} else {
				fmt.Fprintf(b, `\u%04x`, r)
			}
		default:
			b.WriteString(s[i : i+size])
		}
		i += size
	}
	b.WriteByte('"')
}

// JPath addresses a value inside a document.
type JPath struct {
	Parent *JV // object or array containing the value (nil for the root)
	Index  int // member / element index in the parent
	Text   string
}

// Paths enumerates every value position of the document (depth first), except the root.
func (v *JV) Paths() []JPath {
	var out []JPath
	var walk func(p *JV, path string)
	walk = func(p *JV, path string) {
		switch p.Kind {
		case 'o':
			for i, m := range p.Members {
				t := path + "/" + m.Key
				out = append(out, JPath{p, i, t})
				walk(m.Val, t)
			}
		case 'a':
			for i, e := range p.Elems {
				t := fmt.Sprintf("%s/%d", path, i)
				out = append(out, JPath{p, i, t})
				walk(e, t)
			}
		}
	}
	walk(v, "")
	return out
}

// FaultOps are the schema-fault operators (null, wrong type x4, empty, absent, duplicated, oversized, deep).
var FaultOps = []string{"null", "number", "string", "bool", "object", "array", "empty", "absent", "duplicate", "oversized", "deep", "negative", "float", "nulls", "null_run", "blank"}

// ApplyFault applies op at path p (in place; use on a clone). Returns false when not applicable.
func ApplyFault(p JPath, op string) bool {
	set := func(n *JV) {
		if p.Parent.Kind == 'o' {
			p.Parent.Members[p.Index].Val = n
		} else {
			p.Parent.Elems[p.Index] = n
		}
	}
	cur := func() *JV {
		if p.Parent.Kind == 'o' {
			return p.Parent.Members[p.Index].Val
		}
		return p.Parent.Elems[p.Index]
	}
	switch op {
	case "null":
		set(JNull())
	case "number":
		set(JNumber("7"))
	case "negative":
		set(JNumber("-1"))
	case "float":
		set(JNumber("1.5e300"))
	case "string":
		set(JString("x"))
	case "bool":
		set(JBool(true))
	case "object":
		set(JObject())
	case "array":
		set(JArray())
	case "empty":
		c := cur()
		switch c.Kind {
		case 's':
			set(JString(""))
		case 'a':
			set(JArray())
		case 'o':
			set(JObject())
		default:
			return false
		}
	case "absent":
		if p.Parent.Kind == 'o' {
			p.Parent.Members = append(p.Parent.Members[:p.Index:p.Index], p.Parent.Members[p.Index+1:]...)
		} else {
			p.Parent.Elems = append(p.Parent.Elems[:p.Index:p.Index], p.Parent.Elems[p.Index+1:]...)
		}
	case "duplicate":
		if p.Parent.Kind == 'o' {
			m := p.Parent.Members[p.Index]
			p.Parent.Members = append(p.Parent.Members, JMember{m.Key, m.Val.Clone()})
		} else {
			p.Parent.Elems = append(p.Parent.Elems, p.Parent.Elems[p.Index].Clone())
		}
	case "oversized":
		c := cur()
		switch c.Kind {
		case 's':
			set(JString(strings.Repeat(c.Str+"A", 20000/(len(c.Str)+1)+1)))
		case 'a':
			if len(c.Elems) == 0 {
				return false
			}
			n := JArray()
			for i := 0; i < 300; i++ {
				n.Elems = append(n.Elems, c.Elems[i%len(c.Elems)].Clone())
			}
			set(n)
		default:
			return false
		}
	case "blank":
		// a string that is not empty but holds white space only (guards that test for "" and uses that trim disagree on it)
		if cur().Kind != 's' {
			return false
		}
		set(JString(" \t"))
	case "nulls", "null_run":
		// runs of adjacent nulls in a list: all entries null, or the entries followed by two nulls (code that drops
		// null entries while iterating tends to skip the neighbour of a dropped one)
		c := cur()
		if c.Kind != 'a' {
			return false
		}
		n := JArray()
		if op == "null_run" {
			for _, e := range c.Elems {
				n.Elems = append(n.Elems, e.Clone())
			}
			n.Elems = append(n.Elems, JNull(), JNull())
		} else {
			n.Elems = append(n.Elems, JNull(), JNull(), JNull())
		}
		set(n)
	case "deep":
		c := cur()
		n := c.Clone()
		for i := 0; i < 200; i++ {
			switch {
			case c.Kind == 'o' && i < 5:
				n = JObject(M("components", JArray(n)), M("x", n.Clone()))
			case c.Kind == 'o':
				n = JObject(M("components", JArray(n)))
			default:
				n = JArray(n)
			}
		}
		set(n)
	default:
		return false
	}
	return true
}

// CanonJSON decodes with encoding/json (UseNumber) and renders a canonical form in which every array is
// sorted by the canonical encoding of its elements (a sound over-approximation of "up to the order of
// set-valued arrays"). blank lists member names whose values are blanked (timestamps).
var nowStampRe = regexp.MustCompile(`\d{4}-\d{2}-\d{2}T\d{2}:\d{2}:\d{2}(\.\d+)?(Z|[+-]\d{2}:\d{2})`)

func CanonJSON(data []byte, blank map[string]bool) (string, error) {
	dec := json.NewDecoder(bytes.NewReader(data))
	dec.UseNumber()
	var v any
	if err := dec.Decode(&v); err != nil {
		return "", err
	}
	return canonAny(v, blank), nil
}

func canonAny(v any, blank map[string]bool) string {
	switch x := v.(type) {
	case map[string]any:
		keys := make([]string, 0, len(x))
		for k := range x {
			keys = append(keys, k)
		}
		sort.Strings(keys)
		var b strings.Builder
		b.WriteByte('{')
		for _, k := range keys {
			if blank[k] {
				fmt.Fprintf(&b, "%q:_,", k)
				continue
			}
			fmt.Fprintf(&b, "%q:%s,", k, canonAny(x[k], blank))
		}
		b.WriteByte('}')
		return b.String()
	case []any:
		es := make([]string, len(x))
		for i, e := range x {
			es[i] = canonAny(e, blank)
		}
		sort.Strings(es)
		return "[" + strings.Join(es, ",") + "]"
	default:
		// blank["\x00now"]: any string that is a timestamp of the current hour is the creation time under another
		// member name (an annotation date, say)
		if str, ok := x.(string); ok && blank["\x00now"] && len(str) >= 20 {
			// also inside a longer string (a namespace built from the creation time, say)
			x = nowStampRe.ReplaceAllStringFunc(str, func(m string) string {
				if ts, err := time.Parse(time.RFC3339Nano, m); err == nil && time.Since(ts) < time.Hour && time.Until(ts) < time.Hour {
					return "_"
				}
				return m
			})
		}
		b, _ := json.Marshal(x)
		return string(b)
	}
}
