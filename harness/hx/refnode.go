package hx

import (
	"fmt"
	"sort"
	"strings"

	"google.golang.org/protobuf/proto"
	"google.golang.org/protobuf/reflect/protoreflect"
)

// RefKey is an independent canonical form of a message, computed by reflection: scalars verbatim,
// repeated fields as sorted multisets of element keys, maps sorted by key, nested messages recursively,
// timestamps to the second when secs is true. Two messages carry the same content (up to the order of
// repeated fields, and nil-vs-empty) iff their keys are equal.
func RefKey(m proto.Message, secs bool) string {
	if m == nil {
		return ""
	}
	return refKeyMsg(m.ProtoReflect(), secs)
}

func refKeyMsg(m protoreflect.Message, secs bool) string {
	if !m.IsValid() {
		return ""
	}
	if m.Descriptor().FullName() == "google.protobuf.Timestamp" {
		fs := m.Descriptor().Fields()
		s := m.Get(fs.ByName("seconds")).Int()
		ns := m.Get(fs.ByName("nanos")).Int()
		if secs {
			// normalise like time.Unix: nanos may be out of range only through direct construction
			return fmt.Sprintf("T%d", s+floorDiv(ns, 1e9))
		}
		return fmt.Sprintf("T%d.%d", s, ns)
	}
	var parts []string
	fds := m.Descriptor().Fields()
	for i := 0; i < fds.Len(); i++ {
		fd := fds.Get(i)
		k := RefFieldKey(m, fd, secs)
		if k != "" {
			parts = append(parts, fmt.Sprintf("%d=%s", fd.Number(), k))
		}
	}
	return "{" + strings.Join(parts, ";") + "}"
}

func floorDiv(a, b int64) int64 {
	q := a / b
	if (a%b != 0) && ((a < 0) != (b < 0)) {
		q--
	}
	return q
}

// RefFieldKey is the canonical form of one field ("" when empty: zero scalar, empty list/map, unset message).
func RefFieldKey(m protoreflect.Message, fd protoreflect.FieldDescriptor, secs bool) string {
	switch {
	case fd.IsMap():
		mp := m.Get(fd).Map()
		if mp.Len() == 0 {
			return ""
		}
		var es []string
		mp.Range(func(k protoreflect.MapKey, v protoreflect.Value) bool {
			if fd.MapValue().Message() != nil {
				es = append(es, fmt.Sprintf("%q:%s", k.String(), refKeyMsg(v.Message(), secs)))
			} else {
				es = append(es, fmt.Sprintf("%q:%q", k.String(), v.String()))
			}
			return true
		})
		sort.Strings(es)
		return "M[" + strings.Join(es, ",") + "]"
	case fd.IsList():
		l := m.Get(fd).List()
		if l.Len() == 0 {
			return ""
		}
		var es []string
		for i := 0; i < l.Len(); i++ {
			if fd.Message() != nil {
				es = append(es, refKeyMsg(l.Get(i).Message(), secs))
			} else {
				es = append(es, fmt.Sprintf("%q", l.Get(i).String()))
			}
		}
		sort.Strings(es)
		return "L[" + strings.Join(es, ",") + "]"
	case fd.Message() != nil:
		if !m.Has(fd) {
			return ""
		}
		return "m" + refKeyMsg(m.Get(fd).Message(), secs)
	default:
		if !m.Has(fd) {
			return ""
		}
		return fmt.Sprintf("%q", m.Get(fd).String())
	}
}

// FieldEmpty reports whether a field is empty in the sense of the merge rules: zero scalar, empty
// list or map, unset message.
func FieldEmpty(m protoreflect.Message, fd protoreflect.FieldDescriptor) bool {
	switch {
	case fd.IsMap():
		return m.Get(fd).Map().Len() == 0
	case fd.IsList():
		return m.Get(fd).List().Len() == 0
	default:
		return !m.Has(fd)
	}
}

// RefSetKey is like RefFieldKey but treats repeated fields as sets (duplicates collapse).
func RefSetKey(m protoreflect.Message, fd protoreflect.FieldDescriptor, secs bool) string {
	if !fd.IsList() {
		return RefFieldKey(m, fd, secs)
	}
	l := m.Get(fd).List()
	set := map[string]bool{}
	for i := 0; i < l.Len(); i++ {
		if fd.Message() != nil {
			set[refKeyMsg(l.Get(i).Message(), secs)] = true
		} else {
			set[fmt.Sprintf("%q", l.Get(i).String())] = true
		}
	}
	if len(set) == 0 {
		return ""
	}
	es := make([]string, 0, len(set))
	for k := range set {
		es = append(es, k)
	}
	sort.Strings(es)
	return "S[" + strings.Join(es, ",") + "]"
}

// RefKeyOrdered renders a message for failure messages (order preserved: protobuf text form, compacted).
func RefKeyOrdered(m proto.Message, _ string) string {
	s := fmt.Sprintf("%v", m)
	if len(s) > 1500 {
		s = s[:1500] + "…"
	}
	return s
}
