package hx

import (
	"strings"
	"unicode"
	"unicode/utf8"

	"pgregory.net/rapid"
)

// Text domains (DESIGN §3). All constructed; only cheap per-string filters.

var hostile = []string{
	"NOASSERTION", "NONE", " lead", "trail ", "Person: x", "Organization: y (z)", "x (y)", "(", ")", "null",
	"SPDXRef-a", "DocumentRef-x:SPDXRef-y", "é ", "\U0001F600", "\ufeffbom", "á", "DOCUMENT", "true", "0",
	"protobom-auto--000000001", "a:b", "a+b", "Tool: t", " ", "日本語", "x--y", "cpe:2.3:a:b", "pkg:npm/a@1",
	// JSON carries these without escapes; Go's encoder writes them escaped by default
	"AT&T", "Jane Doe <jane@example.com>", "a<b", "a>b", "&amp;", "line\u2028sep", "para\u2029sep", "<", "&",
}

var plainTables = []*unicode.RangeTable{unicode.L, unicode.N, unicode.P, unicode.S, unicode.Zs, unicode.M}

// JSONEscaped reports whether JSON (RFC 8259) requires r to be written with an escape. (Go's encoder additionally
// escapes < > & U+2028 U+2029 by default; those are text "JSON carries without escapes" all the same.)
func JSONEscaped(r rune) bool {
	return r < 0x20 || r == '"' || r == '\\' || r == utf8.RuneError
}

// IsPlain reports whether s is valid UTF-8 that JSON carries without escapes.
func IsPlain(s string) bool {
	if !utf8.ValidString(s) {
		return false
	}
	for _, r := range s {
		if JSONEscaped(r) {
			return false
		}
	}
	return true
}

// TextPlain is T_plain: valid UTF-8 that JSON carries without escapes, possibly empty.
func TextPlain() *rapid.Generator[string] {
	return rapid.OneOf(
		rapid.Just(""),
		rapid.StringMatching(`[a-zA-Z0-9 .,:;/@()\[\]{}'+=_#%!?*<>&-]{1,12}`),
		rapid.StringOfN(rapid.RuneFrom(nil, plainTables...), 1, 8, -1).Filter(IsPlain),
		rapid.SampledFrom(hostile),
	)
}

// TextPlainNE is non-empty T_plain.
func TextPlainNE() *rapid.Generator[string] {
	return TextPlain().Filter(func(s string) bool { return s != "" })
}

// TextAny is T_any: T_plain plus characters JSON must escape, control characters and invalid UTF-8.
func TextAny() *rapid.Generator[string] {
	return rapid.OneOf(
		TextPlain(),
		rapid.StringN(0, 8, -1),
		rapid.SampledFrom([]string{"a\"b", "a\\b", "<a>", "a&b", "\x00", "a\nb", "\t", " ", "\xff\xfe", "a\x80", "\x7f"}),
		rapid.Map(rapid.SliceOfN(rapid.Byte(), 0, 6), func(b []byte) string { return string(b) }),
	)
}

// TextName is T_name: non-empty T_plain without outer white space, not NOASSERTION/NONE.
func TextName() *rapid.Generator[string] {
	return TextPlain().Filter(func(s string) bool {
		return s != "" && s != "NOASSERTION" && s != "NONE" && strings.TrimSpace(s) == s && strings.TrimLeft(s, " \t") == s
	})
}

// SPDXID is ID_spdx: [A-Za-z0-9.-]+ not containing the SPDXRef- prefix marker, not DOCUMENT.
func SPDXID() *rapid.Generator[string] {
	return rapid.OneOf(
		rapid.StringMatching(`[a-zA-Z0-9.-]{1,6}`),
		rapid.SampledFrom([]string{"a", "b", "c", "d", "e", "A", "0", "-", ".", "a.b", "a-b", "Package-x", "File-1.2"}),
	).Filter(func(s string) bool { return !strings.Contains(s, "SPDXRef-") && s != "DOCUMENT" })
}

// CDXID is ID_cdx: non-empty T_plain not in the reserved protobom- namespace.
func CDXID() *rapid.Generator[string] {
	return rapid.OneOf(
		rapid.StringMatching(`[a-zA-Z0-9.:/@_-]{1,8}`),
		TextPlainNE(),
		rapid.SampledFrom([]string{"a", "b", "c", "d", "e", "pkg:npm/a@1", "urn:cdx:1", "SPDXRef-x"}),
	).Filter(func(s string) bool { return !strings.HasPrefix(s, "protobom-") })
}

// SmallIDs is the pool used where overlaps and collisions must be frequent.
var SmallIDs = []string{"a", "b", "c", "d", "e"}

// SmallID draws from the five-letter pool.
func SmallID() *rapid.Generator[string] { return rapid.SampledFrom(SmallIDs) }
