package hx

import (
	"fmt"
	"reflect"
	"sort"
	"strings"

	"github.com/protobom/protobom/pkg/sbom"
	"google.golang.org/protobuf/proto"
	"google.golang.org/protobuf/reflect/protoreflect"
	"pgregory.net/rapid"
)

// PopOpts controls reflection-driven population of protobuf messages.
type PopOpts struct {
	Text       *rapid.Generator[string] // string leaves (default small pool + TextPlain)
	Depth      int                      // nesting bound for message-typed fields (default 2)
	MaxRep     int                      // max elements of repeated / map fields (default 3)
	BadEnums   bool                     // also draw enum numbers outside the declared range
	FillProb   int                      // percentage that a field is populated (default 50)
	SpareCap   bool                     // allocate slices with spare capacity (Go-level; done by caller helpers)
	SkipFields map[protoreflect.FullName]bool
	KeyRange   int // map keys are drawn from 0..KeyRange (default 19)
	// NoZeroTimestamps: never a present-but-all-zero timestamp (whether such a date is "set" is left open by the
	// equality and diff statements)
	NoZeroTimestamps bool
}

var smallText = []string{"a", "b", "c", "x1", "v2", "MIT", "Apache-2.0", "http://e.x/a", "pkg:npm/a@1", "pkg:deb/b@2", "cpe:2.3:a:b:c", "deadbeef", "00ff"}

func (o *PopOpts) defaults() {
	if o.Text == nil {
		o.Text = rapid.OneOf(rapid.SampledFrom(smallText), TextPlainNE())
	}
	if o.Depth == 0 {
		o.Depth = 2
	}
	if o.MaxRep == 0 {
		o.MaxRep = 3
	}
	if o.FillProb == 0 {
		o.FillProb = 50
	}
	if o.KeyRange == 0 {
		o.KeyRange = 19
	}
}

// Populate fills msg's fields by kind, walking the descriptor, so that a field added to the schema
// later is generated without touching the harness.
func Populate(t *rapid.T, label string, msg protoreflect.Message, o PopOpts) {
	o.defaults()
	populate(t, label, msg, &o, o.Depth)
}

func populate(t *rapid.T, label string, msg protoreflect.Message, o *PopOpts, depth int) {
	fds := msg.Descriptor().Fields()
	for i := 0; i < fds.Len(); i++ {
		fd := fds.Get(i)
		if o.SkipFields[fd.FullName()] {
			continue
		}
		l := label + "." + string(fd.Name())
		if rapid.IntRange(0, 99).Draw(t, l+"?") >= o.FillProb {
			continue
		}
		switch {
		case fd.IsMap():
			n := rapid.IntRange(0, o.MaxRep).Draw(t, l+"#")
			m := msg.Mutable(fd).Map()
			for j := 0; j < n; j++ {
				var k protoreflect.MapKey
				switch fd.MapKey().Kind() {
				case protoreflect.StringKind:
					k = protoreflect.ValueOfString(o.Text.Draw(t, l+".k")).MapKey()
				case protoreflect.Int32Kind, protoreflect.Sint32Kind, protoreflect.Sfixed32Kind:
					k = protoreflect.ValueOfInt32(int32(rapid.IntRange(0, o.KeyRange).Draw(t, l+".k"))).MapKey()
				case protoreflect.Int64Kind, protoreflect.Sint64Kind, protoreflect.Sfixed64Kind:
					k = protoreflect.ValueOfInt64(int64(rapid.IntRange(0, o.KeyRange).Draw(t, l+".k"))).MapKey()
				case protoreflect.Uint64Kind, protoreflect.Fixed64Kind:
					k = protoreflect.ValueOfUint64(uint64(rapid.IntRange(0, o.KeyRange).Draw(t, l+".k"))).MapKey()
				case protoreflect.BoolKind:
					k = protoreflect.ValueOfBool(rapid.Bool().Draw(t, l+".k")).MapKey()
				default:
					k = protoreflect.ValueOfUint32(uint32(rapid.IntRange(0, o.KeyRange).Draw(t, l+".k"))).MapKey()
				}
				if fd.MapValue().Message() != nil {
					v := m.NewValue()
					if depth > 0 {
						populate(t, l+".v", v.Message(), o, depth-1)
					}
					m.Set(k, v)
				} else {
					m.Set(k, scalar(t, l+".v", fd.MapValue(), o))
				}
			}
		case fd.IsList():
			n := rapid.IntRange(0, o.MaxRep).Draw(t, l+"#")
			lst := msg.Mutable(fd).List()
			for j := 0; j < n; j++ {
				if fd.Message() != nil {
					v := lst.NewElement()
					if fd.Message().FullName() == "google.protobuf.Timestamp" {
						tm := v.Message()
						tm.Set(tm.Descriptor().Fields().ByName("seconds"), protoreflect.ValueOfInt64(int64(rapid.IntRange(1, 2000000000).Draw(t, l+".sec"))))
						tm.Set(tm.Descriptor().Fields().ByName("nanos"), protoreflect.ValueOfInt32(int32(rapid.IntRange(0, 999999999).Draw(t, l+".ns"))))
					} else if depth > 0 {
						populate(t, l, v.Message(), o, depth-1)
					}
					lst.Append(v)
				} else {
					lst.Append(scalar(t, l, fd, o))
				}
			}
		case fd.Message() != nil:
			if fd.Message().FullName() == "google.protobuf.Timestamp" {
				m := msg.Mutable(fd).Message()
				// one in eight: present but all-zero (the Unix epoch, what SOURCE_DATE_EPOCH=0 builds record) — a set
				// date whose message has no non-default field
				if !o.NoZeroTimestamps && rapid.IntRange(0, 7).Draw(t, l+".epoch") == 0 {
					continue
				}
				sec := rapid.Int64Range(-62135596800, 253402300799).Draw(t, l+".sec")
				if rapid.Bool().Draw(t, l+".recent") {
					sec = rapid.Int64Range(0, 2000000000).Draw(t, l+".sec2")
				}
				ns := int32(rapid.IntRange(0, 999999999).Draw(t, l+".ns"))
				if o.NoZeroTimestamps && sec == 0 {
					sec = 1 // (nothing in second 0: "to the second" it is the all-zero date)
				}
				m.Set(m.Descriptor().Fields().ByName("seconds"), protoreflect.ValueOfInt64(sec))
				m.Set(m.Descriptor().Fields().ByName("nanos"), protoreflect.ValueOfInt32(ns))
				continue
			}
			if depth > 0 {
				populate(t, l, msg.Mutable(fd).Message(), o, depth-1)
			} else {
				msg.Mutable(fd)
			}
		default:
			msg.Set(fd, scalar(t, l, fd, o))
		}
	}
}

func scalar(t *rapid.T, l string, fd protoreflect.FieldDescriptor, o *PopOpts) protoreflect.Value {
	switch fd.Kind() {
	case protoreflect.StringKind:
		return protoreflect.ValueOfString(o.Text.Draw(t, l))
	case protoreflect.BoolKind:
		return protoreflect.ValueOfBool(rapid.Bool().Draw(t, l))
	case protoreflect.EnumKind:
		vals := fd.Enum().Values()
		if o.BadEnums && rapid.IntRange(0, 9).Draw(t, l+".bad") == 0 {
			return protoreflect.ValueOfEnum(protoreflect.EnumNumber(rapid.SampledFrom([]int32{-1, 99, 1 << 20}).Draw(t, l+".badv")))
		}
		return protoreflect.ValueOfEnum(vals.Get(rapid.IntRange(0, vals.Len()-1).Draw(t, l)).Number())
	case protoreflect.Int32Kind, protoreflect.Sint32Kind, protoreflect.Sfixed32Kind:
		return protoreflect.ValueOfInt32(int32(rapid.IntRange(-2, 40).Draw(t, l)))
	case protoreflect.Int64Kind, protoreflect.Sint64Kind, protoreflect.Sfixed64Kind:
		return protoreflect.ValueOfInt64(int64(rapid.IntRange(-2, 40).Draw(t, l)))
	case protoreflect.Uint32Kind, protoreflect.Fixed32Kind:
		return protoreflect.ValueOfUint32(uint32(rapid.IntRange(0, 40).Draw(t, l)))
	case protoreflect.Uint64Kind, protoreflect.Fixed64Kind:
		return protoreflect.ValueOfUint64(uint64(rapid.IntRange(0, 40).Draw(t, l)))
	case protoreflect.FloatKind:
		return protoreflect.ValueOfFloat32(float32(rapid.IntRange(-2, 40).Draw(t, l)))
	case protoreflect.DoubleKind:
		return protoreflect.ValueOfFloat64(float64(rapid.IntRange(-2, 40).Draw(t, l)))
	case protoreflect.BytesKind:
		return protoreflect.ValueOfBytes(rapid.SliceOfN(rapid.Byte(), 0, 4).Draw(t, l))
	}
	panic("HARNESS-SELFTEST unhandled kind " + fd.Kind().String())
}

// GenNodeAttrs draws a node with the given id and an independent random subset of all other Node
// attributes (by reflection over the Node descriptor). richness bounds repeated-field sizes.
func GenNodeAttrs(t *rapid.T, id string, richness int) *sbom.Node {
	n := &sbom.Node{}
	Populate(t, "n["+id+"]", n.ProtoReflect(), PopOpts{MaxRep: richness, FillProb: 35,
		SkipFields: map[protoreflect.FullName]bool{"protobom.protobom.Node.id": true}})
	n.Id = id
	return n
}

// Snapshot is the order-sensitive, field-by-field, recursive snapshot of a message: deterministic
// protobuf wire bytes. In-place sorts, appended or dropped elements and rewritten nested values are
// visible; representation-only differences (nil vs empty, capacity) are deliberately not.
func Snapshot(m proto.Message) string {
	if m == nil || !m.ProtoReflect().IsValid() {
		return "<nil>"
	}
	b, err := proto.MarshalOptions{Deterministic: true}.Marshal(m)
	if err != nil {
		return "ERR:" + err.Error()
	}
	return string(b)
}

// Leaf identifies one leaf of a message tree for mutation.
type Leaf struct {
	Path string
	set  func(t *rapid.T)
}

// Leaves enumerates the populated and unpopulated scalar leaves of msg reachable through populated
// containers (list elements, map values, nested messages), each with a mutator that changes exactly it.
func Leaves(msg protoreflect.Message, prefix string) []Leaf {
	var out []Leaf
	fds := msg.Descriptor().Fields()
	for i := 0; i < fds.Len(); i++ {
		fd := fds.Get(i)
		p := prefix + "." + string(fd.Name())
		switch {
		case fd.IsMap():
			m := msg.Get(fd).Map()
			keys := []protoreflect.MapKey{}
			m.Range(func(k protoreflect.MapKey, _ protoreflect.Value) bool { keys = append(keys, k); return true })
			sort.Slice(keys, func(a, b int) bool { return keys[a].String() < keys[b].String() })
			for _, k := range keys {
				k := k
				if fd.MapValue().Message() != nil {
					out = append(out, Leaves(m.Get(k).Message(), fmt.Sprintf("%s[%s]", p, k.String()))...)
					continue
				}
				out = append(out, Leaf{Path: fmt.Sprintf("%s[%s]", p, k.String()), set: func(t *rapid.T) {
					mm := msg.Mutable(fd).Map()
					mm.Set(k, changed(t, fd.MapValue(), mm.Get(k)))
				}})
			}
			// adding a key
			fdc := fd
			out = append(out, Leaf{Path: p + "[+]", set: func(t *rapid.T) {
				mm := msg.Mutable(fdc).Map()
				for n := int32(100); ; n++ {
					var k protoreflect.MapKey
					switch fdc.MapKey().Kind() {
					case protoreflect.StringKind:
						k = protoreflect.ValueOfString(fmt.Sprintf("k%d", n)).MapKey()
					case protoreflect.Int64Kind, protoreflect.Sint64Kind, protoreflect.Sfixed64Kind:
						k = protoreflect.ValueOfInt64(int64(n)).MapKey()
					case protoreflect.Uint32Kind, protoreflect.Fixed32Kind:
						k = protoreflect.ValueOfUint32(uint32(n)).MapKey()
					case protoreflect.Uint64Kind, protoreflect.Fixed64Kind:
						k = protoreflect.ValueOfUint64(uint64(n)).MapKey()
					case protoreflect.BoolKind:
						k = protoreflect.ValueOfBool(n%2 == 0).MapKey()
						if n > 102 {
							return // both keys taken
						}
					default:
						k = protoreflect.ValueOfInt32(n).MapKey()
					}
					if !mm.Has(k) {
						if fdc.MapValue().Message() != nil {
							mm.Set(k, mm.NewValue())
						} else {
							mm.Set(k, changed(t, fdc.MapValue(), zeroOf(fdc.MapValue())))
						}
						return
					}
				}
			}})
		case fd.IsList():
			lst := msg.Get(fd).List()
			for j := 0; j < lst.Len(); j++ {
				j := j
				if fd.Message() != nil {
					out = append(out, Leaves(lst.Get(j).Message(), fmt.Sprintf("%s[%d]", p, j))...)
					continue
				}
				out = append(out, Leaf{Path: fmt.Sprintf("%s[%d]", p, j), set: func(t *rapid.T) {
					l := msg.Mutable(fd).List()
					l.Set(j, changed(t, fd, l.Get(j)))
				}})
			}
			fdc := fd
			out = append(out, Leaf{Path: p + "[+]", set: func(t *rapid.T) {
				l := msg.Mutable(fdc).List()
				if fdc.Message() != nil {
					e := l.NewElement()
					// give the new element some content so that it is not the empty message
					lv := Leaves(e.Message(), "")
					for _, x := range lv {
						if !strings.Contains(x.Path, "[") {
							x.set(t)
							break
						}
					}
					l.Append(e)
				} else {
					l.Append(changed(t, fdc, zeroOf(fdc)))
				}
			}})
		case fd.Message() != nil:
			if fd.Message().FullName() == "google.protobuf.Timestamp" {
				out = append(out, Leaf{Path: p, set: func(t *rapid.T) {
					if !msg.Has(fd) {
						m := msg.Mutable(fd).Message()
						m.Set(m.Descriptor().Fields().ByName("seconds"), protoreflect.ValueOfInt64(int64(rapid.IntRange(1, 2000000000).Draw(t, "ts"))))
						return
					}
					if rapid.IntRange(0, 3).Draw(t, "tsclear") == 0 {
						msg.Clear(fd)
						return
					}
					m := msg.Mutable(fd).Message()
					sf := m.Descriptor().Fields().ByName("seconds")
					delta := int64(rapid.IntRange(1, 100000).Draw(t, "tsd"))
					if m.Get(sf).Int()+delta > 253402300799 {
						delta = -delta // (stay inside the range a Timestamp may hold: 0001-01-01 .. 9999-12-31)
					}
					if m.Get(sf).Int()+delta == 0 {
						delta++ // (not onto second 0: with nanos 0 that is the all-zero date)
					}
					m.Set(sf, protoreflect.ValueOfInt64(m.Get(sf).Int()+delta))
				}})
				continue
			}
			if msg.Has(fd) {
				out = append(out, Leaves(msg.Get(fd).Message(), p)...)
			}
		default:
			out = append(out, Leaf{Path: p, set: func(t *rapid.T) { msg.Set(fd, changed(t, fd, msg.Get(fd))) }})
		}
	}
	return out
}

func zeroOf(fd protoreflect.FieldDescriptor) protoreflect.Value {
	switch fd.Kind() {
	case protoreflect.StringKind:
		return protoreflect.ValueOfString("")
	case protoreflect.BoolKind:
		return protoreflect.ValueOfBool(false)
	case protoreflect.EnumKind:
		return protoreflect.ValueOfEnum(0)
	case protoreflect.Int32Kind, protoreflect.Sint32Kind, protoreflect.Sfixed32Kind:
		return protoreflect.ValueOfInt32(0)
	case protoreflect.Int64Kind, protoreflect.Sint64Kind, protoreflect.Sfixed64Kind:
		return protoreflect.ValueOfInt64(0)
	case protoreflect.Uint32Kind, protoreflect.Fixed32Kind:
		return protoreflect.ValueOfUint32(0)
	case protoreflect.Uint64Kind, protoreflect.Fixed64Kind:
		return protoreflect.ValueOfUint64(0)
	case protoreflect.FloatKind:
		return protoreflect.ValueOfFloat32(0)
	case protoreflect.DoubleKind:
		return protoreflect.ValueOfFloat64(0)
	case protoreflect.BytesKind:
		return protoreflect.ValueOfBytes(nil)
	}
	panic("HARNESS-SELFTEST unhandled kind " + fd.Kind().String())
}

// Apply mutates the leaf.
func (l Leaf) Apply(t *rapid.T) { l.set(t) }

// changed returns a value of fd's kind different from old.
func changed(t *rapid.T, fd protoreflect.FieldDescriptor, old protoreflect.Value) protoreflect.Value {
	switch fd.Kind() {
	case protoreflect.StringKind:
		s := rapid.SampledFrom([]string{"q", "r", "zz9", "new value", "Z"}).Draw(t, "chg")
		if s == old.String() {
			s += "'"
		}
		if old.String() != "" && rapid.IntRange(0, 4).Draw(t, "chgmode") == 0 {
			s = old.String() + s // extension of the old value
		}
		return protoreflect.ValueOfString(s)
	case protoreflect.BoolKind:
		return protoreflect.ValueOfBool(!old.Bool())
	case protoreflect.EnumKind:
		vals := fd.Enum().Values()
		if vals.Len() < 2 {
			return protoreflect.ValueOfEnum(old.Enum() + 1) // (an enum with one value: any other number)
		}
		for {
			n := vals.Get(rapid.IntRange(0, vals.Len()-1).Draw(t, "chgenum")).Number()
			if n != old.Enum() {
				return protoreflect.ValueOfEnum(n)
			}
		}
	case protoreflect.Int32Kind, protoreflect.Sint32Kind, protoreflect.Sfixed32Kind:
		return protoreflect.ValueOfInt32(int32(old.Int()) + int32(rapid.IntRange(1, 5).Draw(t, "chgi")))
	case protoreflect.Int64Kind, protoreflect.Sint64Kind, protoreflect.Sfixed64Kind:
		return protoreflect.ValueOfInt64(old.Int() + int64(rapid.IntRange(1, 5).Draw(t, "chgi")))
	case protoreflect.Uint32Kind, protoreflect.Fixed32Kind:
		return protoreflect.ValueOfUint32(uint32(old.Uint()) + uint32(rapid.IntRange(1, 5).Draw(t, "chgi")))
	case protoreflect.Uint64Kind, protoreflect.Fixed64Kind:
		return protoreflect.ValueOfUint64(old.Uint() + uint64(rapid.IntRange(1, 5).Draw(t, "chgi")))
	case protoreflect.FloatKind:
		return protoreflect.ValueOfFloat32(float32(old.Float()) + float32(rapid.IntRange(1, 5).Draw(t, "chgi")))
	case protoreflect.DoubleKind:
		return protoreflect.ValueOfFloat64(old.Float() + float64(rapid.IntRange(1, 5).Draw(t, "chgi")))
	case protoreflect.BytesKind:
		return protoreflect.ValueOfBytes(append(append([]byte{}, old.Bytes()...), 1))
	}
	panic("HARNESS-SELFTEST unhandled kind " + fd.Kind().String())
}

// ---------------------------------------------------------------------------------------------
// Alias walker: addresses of every reachable pointer target, map header and slice backing array.

type span struct {
	lo, hi uintptr
	what   string
}

// MemSpans collects the mutable memory reachable from v (Go reflection): pointer targets, map
// headers, slice backing arrays [ptr, ptr+cap*size).
func MemSpans(v any) []span {
	var out []span
	seen := map[uintptr]bool{}
	var walk func(rv reflect.Value, path string)
	walk = func(rv reflect.Value, path string) {
		switch rv.Kind() {
		case reflect.Ptr:
			if rv.IsNil() {
				return
			}
			p := rv.Pointer()
			if seen[p] {
				return
			}
			seen[p] = true
			sz := rv.Type().Elem().Size()
			if sz > 0 {
				out = append(out, span{p, p + sz, path})
			}
			walk(rv.Elem(), path)
		case reflect.Interface:
			if !rv.IsNil() {
				walk(rv.Elem(), path)
			}
		case reflect.Struct:
			tn := rv.Type().PkgPath()
			for i := 0; i < rv.NumField(); i++ {
				f := rv.Type().Field(i)
				// protobuf bookkeeping (state, sizeCache, unknownFields) is not user-visible mutable state
				if strings.HasPrefix(tn, "github.com/protobom") && !f.IsExported() {
					continue
				}
				if !f.IsExported() {
					continue
				}
				walk(rv.Field(i), path+"."+f.Name)
			}
		case reflect.Slice:
			if rv.IsNil() || rv.Cap() == 0 {
				return
			}
			p := rv.Pointer()
			sz := rv.Type().Elem().Size()
			out = append(out, span{p, p + uintptr(rv.Cap())*sz, path + "[]"})
			for i := 0; i < rv.Len(); i++ {
				walk(rv.Index(i), fmt.Sprintf("%s[%d]", path, i))
			}
		case reflect.Map:
			if rv.IsNil() {
				return
			}
			p := rv.Pointer()
			out = append(out, span{p, p + 1, path + "{}"})
			it := rv.MapRange()
			for it.Next() {
				walk(it.Value(), fmt.Sprintf("%s{%v}", path, it.Key()))
			}
		}
	}
	walk(reflect.ValueOf(v), "")
	return out
}

// Aliases returns descriptions of memory shared between x and y (empty when independent).
func Aliases(x, y any) []string {
	xs, ys := MemSpans(x), MemSpans(y)
	sort.Slice(ys, func(i, j int) bool { return ys[i].lo < ys[j].lo })
	var out []string
	for _, a := range xs {
		for _, b := range ys {
			if b.lo >= a.hi {
				break
			}
			if a.lo < b.hi && b.lo < a.hi {
				out = append(out, fmt.Sprintf("%s <-> %s", a.what, b.what))
			}
		}
	}
	return out
}
