package hx

import (
	"fmt"
	"sort"
	"strings"

	"github.com/protobom/protobom/pkg/sbom"
	"pgregory.net/rapid"
)

// Triple is one typed edge target.
type Triple struct {
	From string
	Type sbom.Edge_Type
	To   string
}

func (t Triple) String() string { return fmt.Sprintf("%s-%d->%s", t.From, int32(t.Type), t.To) }

// Sets is the canonical set view of a node list (DESIGN §3 graphSets).
type Sets struct {
	Nodes   map[string]int // id -> multiplicity
	Triples map[Triple]struct{}
	Roots   map[string]struct{}
}

// GraphSets computes the set view. A nil list reads as the empty list (generated getters are nil safe).
func GraphSets(nl *sbom.NodeList) Sets {
	s := Sets{Nodes: map[string]int{}, Triples: map[Triple]struct{}{}, Roots: map[string]struct{}{}}
	for _, n := range nl.GetNodes() {
		s.Nodes[n.GetId()]++
	}
	for _, e := range nl.GetEdges() {
		for _, to := range e.GetTo() {
			s.Triples[Triple{e.GetFrom(), e.GetType(), to}] = struct{}{}
		}
	}
	for _, r := range nl.GetRootElements() {
		s.Roots[r] = struct{}{}
	}
	return s
}

// Restrict returns the triples whose two endpoints are in nodes.
func RestrictTriples(tr map[Triple]struct{}, nodes map[string]int) map[Triple]struct{} {
	out := map[Triple]struct{}{}
	for t := range tr {
		if nodes[t.From] > 0 && nodes[t.To] > 0 {
			out[t] = struct{}{}
		}
	}
	return out
}

// SortedKeys returns map keys sorted (never range over a map when building a verdict).
func SortedKeys[V any](m map[string]V) []string {
	ks := make([]string, 0, len(m))
	for k := range m {
		ks = append(ks, k)
	}
	sort.Strings(ks)
	return ks
}

// TripleKeys renders a triple set as a sorted string list.
func TripleKeys(m map[Triple]struct{}) []string {
	ks := make([]string, 0, len(m))
	for k := range m {
		ks = append(ks, k.String())
	}
	sort.Strings(ks)
	return ks
}

// SetKey is a canonical string for a sets value (for comparison and digests).
func (s Sets) Key() string {
	var b strings.Builder
	for _, k := range SortedKeys(s.Nodes) {
		fmt.Fprintf(&b, "N%q*%d;", k, s.Nodes[k])
	}
	for _, k := range TripleKeys(s.Triples) {
		fmt.Fprintf(&b, "E%q;", k)
	}
	for _, k := range SortedKeys(s.Roots) {
		fmt.Fprintf(&b, "R%q;", k)
	}
	return b.String()
}

// WellFormed checks: node ids pairwise distinct, every edge endpoint and root is a node.
// normalised additionally requires: at most one edge per (from,type) and no repeated targets (an edge without targets
// breaks neither).
func WellFormed(nl *sbom.NodeList, normalised bool) error {
	ids := map[string]bool{}
	for i, n := range nl.GetNodes() {
		if n == nil {
			return fmt.Errorf("node %d is nil", i)
		}
		if ids[n.Id] {
			return fmt.Errorf("duplicate node id %q", n.Id)
		}
		ids[n.Id] = true
	}
	seen := map[string]bool{}
	for i, e := range nl.GetEdges() {
		if e == nil {
			return fmt.Errorf("edge %d is nil", i)
		}
		if !ids[e.From] {
			return fmt.Errorf("edge source %q is not a node", e.From)
		}
		tos := map[string]bool{}
		for _, to := range e.To {
			if !ids[to] {
				return fmt.Errorf("edge %q-%v-> target %q is not a node", e.From, e.Type, to)
			}
			if normalised && tos[to] {
				return fmt.Errorf("edge %q-%v-> repeats target %q", e.From, e.Type, to)
			}
			tos[to] = true
		}
		if normalised {
			k := fmt.Sprintf("%q/%d", e.From, e.Type)
			if seen[k] {
				return fmt.Errorf("more than one edge for source %q type %v", e.From, e.Type)
			}
			seen[k] = true
		}
	}
	for _, r := range nl.GetRootElements() {
		if !ids[r] {
			return fmt.Errorf("root element %q is not a node", r)
		}
	}
	return nil
}

// GraphOpts drives GenNodeList.
type GraphOpts struct {
	IDs        []string         // id pool (default SmallIDs)
	Extra      []string         // ids that are never nodes (dangling references) when !WellFormed
	WellFormed bool             // only references to present nodes
	MaxNodes   int              // default 5
	MaxEdges   int              // default 6
	Types      []sbom.Edge_Type // default contains, dependsOn
	NodeGen    func(t *rapid.T, id string) *sbom.Node
	Normalised bool // at most one edge per (from,type), no repeated targets
}

var defaultTypes = []sbom.Edge_Type{sbom.Edge_contains, sbom.Edge_dependsOn}

// GenNodeList builds a node list: distinct ids, then edges over the node ids (or a superset), several
// edges per (from,type), repeated targets, self loops, cycles, several/zero/dangling roots; slices are
// sometimes allocated with spare capacity.
func GenNodeList(t *rapid.T, label string, o GraphOpts) *sbom.NodeList {
	if o.IDs == nil {
		o.IDs = SmallIDs
	}
	if o.MaxNodes == 0 {
		o.MaxNodes = 5
	}
	if o.MaxNodes > len(o.IDs) {
		o.MaxNodes = len(o.IDs)
	}
	if o.MaxEdges == 0 {
		o.MaxEdges = 6
	}
	if o.Types == nil {
		o.Types = defaultTypes
	}
	if o.NodeGen == nil {
		o.NodeGen = func(t *rapid.T, id string) *sbom.Node { return GenNodeAttrs(t, id, 3) }
	}
	minNodes := 1
	if rapid.IntRange(0, 9).Draw(t, label+".empty") == 0 {
		minNodes = 0
	}
	ids := rapid.SliceOfNDistinct(rapid.SampledFrom(o.IDs), minNodes, o.MaxNodes, rapid.ID[string]).Draw(t, label+".ids")
	nl := &sbom.NodeList{}
	spare := rapid.Bool().Draw(t, label+".spare")
	if spare {
		nl.Nodes = make([]*sbom.Node, 0, len(ids)+3)
		nl.Edges = make([]*sbom.Edge, 0, 8)
		nl.RootElements = make([]string, 0, 6)
	}
	for _, id := range ids {
		nl.Nodes = append(nl.Nodes, o.NodeGen(t, id))
	}
	refPool := append([]string{}, ids...)
	if !o.WellFormed {
		// dangling references: pool ids that are not nodes of this list (they may be nodes of another
		// operand) and ids that are never nodes
		refPool = append([]string{}, o.IDs...)
		refPool = append(refPool, o.Extra...)
		if len(o.Extra) == 0 {
			refPool = append(refPool, "zz")
		}
	}
	if len(refPool) == 0 {
		return nl
	}
	ne := rapid.IntRange(0, o.MaxEdges).Draw(t, label+".ne")
	seen := map[string]bool{}
	for i := 0; i < ne; i++ {
		from := rapid.SampledFrom(refPool).Draw(t, label+".from")
		ty := rapid.SampledFrom(o.Types).Draw(t, label+".type")
		if o.Normalised {
			k := fmt.Sprintf("%q/%d", from, ty)
			if seen[k] {
				continue
			}
			seen[k] = true
		}
		var tos []string
		if o.Normalised {
			tos = rapid.SliceOfNDistinct(rapid.SampledFrom(refPool), 1, 3, rapid.ID[string]).Draw(t, label+".to")
		} else {
			tos = rapid.SliceOfN(rapid.SampledFrom(refPool), 0, 3).Draw(t, label+".to")
		}
		if spare {
			tos = append(make([]string, 0, len(tos)+2), tos...)
		}
		nl.Edges = append(nl.Edges, &sbom.Edge{From: from, Type: ty, To: tos})
	}
	roots := rapid.SliceOfN(rapid.SampledFrom(refPool), 0, 3).Draw(t, label+".roots")
	if o.Normalised {
		roots = dedupe(roots)
	}
	nl.RootElements = append(nl.RootElements, roots...)
	return nl
}

func dedupe(in []string) []string {
	seen := map[string]bool{}
	out := []string{}
	for _, s := range in {
		if !seen[s] {
			seen[s] = true
			out = append(out, s)
		}
	}
	return out
}

// DescribeNL renders a node list compactly for samples and failure messages.
func DescribeNL(nl *sbom.NodeList) string {
	if nl == nil {
		return "<nil>"
	}
	var b strings.Builder
	b.WriteString("nodes=[")
	for i, n := range nl.Nodes {
		if i > 0 {
			b.WriteString(",")
		}
		if n == nil {
			b.WriteString("<nil>")
			continue
		}
		fmt.Fprintf(&b, "%q", n.Id)
	}
	b.WriteString("] edges=[")
	for i, e := range nl.Edges {
		if i > 0 {
			b.WriteString(",")
		}
		if e == nil {
			b.WriteString("<nil>")
			continue
		}
		fmt.Fprintf(&b, "%q-%d->%q", e.From, int32(e.Type), e.To)
	}
	fmt.Fprintf(&b, "] roots=%q", nl.RootElements)
	return b.String()
}

// Permute returns a permutation of xs drawn from rapid.
func Permute[T any](t *rapid.T, label string, xs []T) []T {
	out := append([]T(nil), xs...)
	for i := len(out) - 1; i > 0; i-- {
		j := rapid.IntRange(0, i).Draw(t, label)
		out[i], out[j] = out[j], out[i]
	}
	return out
}
