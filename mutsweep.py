#!/usr/bin/env python3
"""Automated statement-level mutation sweep over the code behind the properties (sensitivity evidence, DESIGN §11).

usage: ./mutsweep.py [--files a.go,b.go] [--workers N] [--limit N] [--out FILE] [--resume]

For every candidate line of the chosen source files of /repo one mutant is made in a scratch worktree (outside /repo and
/verif, removed afterwards):
  del    delete a single-line simple statement (assignment, append, call)
  neg    negate the condition of a single-line `if` ( == <-> != , insert/remove `!` is not attempted)
  brk    swap `continue` and `break`
  bool   swap a `true` / `false` literal
A mutant counts only when it compiles and the unedited upstream suite passes (twice on failure: one upstream test is
schedule dependent). For those the quick checks mapped to the file run one after the other (VERIF_REPO=<scratch>) until one
reports a violation. Survivors are listed for manual triage (equivalent change or blind spot). Nothing is written to /repo.
"""
import json
import os
import re
import shutil
import subprocess
import sys
import tempfile
import threading
import time
from concurrent.futures import ThreadPoolExecutor

VERIF = os.path.dirname(os.path.abspath(__file__))
REPO = "/repo"
GOENV = dict(os.environ, GOFLAGS="-mod=mod", GOPROXY="off", GOSUMDB="off", GOTOOLCHAIN="local")

FILES = {
    "pkg/native/serializers/serializer_cdx.go": ["C02", "C03", "C07", "C11"],
    "pkg/native/serializers/serializer_spdx23.go": ["C01", "C03", "C07", "C11"],
    "pkg/native/unserializers/unserializer_cdx.go": ["C02", "C05", "C04", "C03"],
    "pkg/native/unserializers/unserializer_spdx23.go": ["C01", "C05", "C04", "C03"],
    "pkg/sbom/nodelist.go": ["C08", "C09", "C10", "C15", "C16", "C13", "C12", "C11"],
    "pkg/sbom/node.go": ["C13", "C09", "C12", "C14", "C16", "C10", "C01", "C02"],
    "pkg/sbom/diff.go": ["C14"],
    "pkg/sbom/edge.go": ["C01", "C03", "C13", "C12", "C08"],
    "pkg/sbom/person.go": ["C13", "C12", "C14"],
    "pkg/sbom/externalreference.go": ["C13", "C12", "C14", "C01", "C02"],
    "pkg/sbom/identifier.go": ["C16", "C01", "C02", "C03"],
    "pkg/sbom/hashalgorithm.go": ["C01", "C02", "C03", "C05"],
    "pkg/sbom/functions.go": ["C01", "C02", "C03", "C05"],
    "pkg/sbom/document.go": ["C16", "C02", "C01"],
    "pkg/formats/sniffer.go": ["C06", "C04", "C17"],
    "pkg/formats/formats.go": ["C06"],
    "pkg/storage/filesystem.go": ["C19", "C20"],
    "pkg/reader/reader.go": ["C18", "C17", "C05", "C04"],
    "pkg/reader/options.go": ["C18"],
    "pkg/writer/writer.go": ["C18", "C17", "C07"],
    "pkg/writer/options.go": ["C18"],
}

SIMPLE_STMT = re.compile(r"^\s*(?:[A-Za-z_][\w\.\[\]\*\(\)\"]*\s*(?:=|\+=|:=)\s*.+|[A-Za-z_][\w\.]*\(.*\))\s*(//.*)?$")


def sh(cmd, cwd=None, env=None, timeout=3600):
    r = subprocess.run(cmd, cwd=cwd, env=env or GOENV, stdout=subprocess.PIPE, stderr=subprocess.STDOUT, text=True, timeout=timeout)
    return r.returncode, r.stdout


def candidates(path, lines):
    out = []
    depth_func = False
    for i, ln in enumerate(lines):
        s = ln.strip()
        if s.startswith("func "):
            depth_func = True
        if not depth_func or not s or s.startswith("//"):
            continue
        if s in ("continue", "break"):
            out.append((i, "brk", ln.replace(s, "break" if s == "continue" else "continue")))
            continue
        m = re.match(r"^(\s*)(?:\} else )?if (.*) \{\s*$", ln)
        if m and ("==" in m.group(2) or "!=" in m.group(2)) and m.group(2).count("==") + m.group(2).count("!=") == 1 and ";" not in m.group(2):
            cond = m.group(2)
            new = cond.replace("==", "\0").replace("!=", "==").replace("\0", "!=")
            out.append((i, "neg", ln.replace(cond, new)))
            continue
        if re.search(r"\b(true|false)\b", s) and not s.startswith("case") and "//" not in s.split("true")[0].split("false")[0]:
            new = re.sub(r"\btrue\b", "\0", ln, count=1)
            new = new if "\0" in new else re.sub(r"\bfalse\b", "true", ln, count=1)
            new = new.replace("\0", "false")
            if new != ln:
                out.append((i, "bool", new))
                continue
        if SIMPLE_STMT.match(ln) and not s.endswith("{") and not s.endswith(",") and not s.endswith("(") and ":=" not in s and not s.startswith("return") \
                and not s.startswith("defer") and not s.startswith("logrus") and not s.startswith("fmt.") and s.count("(") == s.count(")"):
            out.append((i, "del", None))
    # swp: swap the labels of two neighbouring single-statement case arms (value tables: enum <-> name mappings)
    case_re = re.compile(r"^\s*case [^:]+:\s*(//.*)?$")
    i = 0
    while i + 2 < len(lines):
        if case_re.match(lines[i]) and case_re.match(lines[i + 2]) and not case_re.match(lines[i + 1]) and lines[i + 1].strip() \
                and lines[i].strip() != lines[i + 2].strip() and lines[i + 1].strip() != (lines[i + 3].strip() if i + 3 < len(lines) else ""):
            out.append((i, "swp", (i + 2, lines[i + 2], lines[i])))
            i += 4
            continue
        i += 1
    return out


lock = threading.Lock()


def evaluate(rel, idx, op, newline, checks, results, out_path):
    tmp = tempfile.mkdtemp(prefix="verif-mutsweep-")
    dst = os.path.join(tmp, "repo")
    res = {"file": rel, "line": idx + 1, "op": op, "status": "", "caught_by": None, "ran": []}
    try:
        rc, out = sh(["git", "-C", REPO, "worktree", "add", "-q", "--detach", dst, "HEAD"])
        if rc != 0:
            res["status"] = "error: " + out[-200:]
            return res
        p = os.path.join(dst, rel)
        lines = open(p).read().split("\n")
        res["original"] = lines[idx].strip()
        if op == "del":
            lines[idx] = ""
        elif op == "swp":
            j, li, lj = newline
            res["mutated"] = "%s <-> %s" % (lines[idx].strip(), lines[j].strip())
            lines[idx], lines[j] = li, lj
        else:
            lines[idx] = newline
            res["mutated"] = newline.strip()
        open(p, "w").write("\n".join(lines))
        rc, out = sh(["go", "build", "./..."], cwd=dst)
        if rc != 0:
            res["status"] = "nocompile"
            return res
        ok = False
        for _ in range(4):
            rc, out = sh(["go", "test", "-vet=off", "-count=1", "./..."], cwd=dst, timeout=900)
            if rc == 0:
                ok = True
                break
        if not ok:
            res["status"] = "killed_by_suite"
            return res
        for c in checks:
            env = dict(GOENV, VERIF_REPO=dst, VERIF_SEED="1", VERIF_EVIDENCE_DIR=os.path.join(tmp, "evidence"))
            t0 = time.time()
            try:
                rc, out = sh([os.path.join(VERIF, "check"), c, "quick"], cwd=VERIF, env=env, timeout=2400)
            except subprocess.TimeoutExpired:
                rc, out = 2, "timeout"
            res["ran"].append({"check": c, "rc": rc, "wall_s": round(time.time() - t0, 1)})
            if rc == 1 and "VIOLATION" in out:
                res["status"] = "caught"
                res["caught_by"] = c
                res["message"] = next((l.strip() for l in out.splitlines() if l.strip().startswith("violation:")), "")[:300]
                return res
        res["status"] = "SURVIVED"
        return res
    except Exception as e:  # noqa: BLE001
        res["status"] = "error: %r" % (e,)
        return res
    finally:
        sh(["git", "-C", REPO, "worktree", "remove", "--force", dst])
        shutil.rmtree(tmp, ignore_errors=True)
        with lock:
            results.append(res)
            json.dump(results, open(out_path, "w"), indent=1)
            print("%-16s %s:%d %s  %s %s" % (res["status"], rel, idx + 1, op, res.get("caught_by") or "", res.get("original", "")[:90]), flush=True)


def main():
    args = sys.argv[1:]
    files = list(FILES)
    if "--files" in args:
        files = args[args.index("--files") + 1].split(",")
    workers = int(args[args.index("--workers") + 1]) if "--workers" in args else 4
    limit = int(args[args.index("--limit") + 1]) if "--limit" in args else 0
    out_path = args[args.index("--out") + 1] if "--out" in args else os.path.join(VERIF, "mutsweep-results.json")
    results = []
    done = set()
    if "--resume" in args and os.path.exists(out_path):
        results = json.load(open(out_path))
        done = {(r["file"], r["line"], r["op"]) for r in results if not r["status"].startswith("error")}
    jobs = []
    ops = args[args.index("--ops") + 1].split(",") if "--ops" in args else None
    for rel in files:
        lines = open(os.path.join(REPO, rel)).read().split("\n")
        for idx, op, newline in candidates(rel, lines):
            if (rel, idx + 1, op) not in done and (ops is None or op in ops):
                jobs.append((rel, idx, op, newline, FILES[rel]))
    if limit:
        step = max(1, len(jobs) // limit)
        jobs = jobs[::step][:limit]
    print("%d mutants to evaluate" % len(jobs), flush=True)
    with ThreadPoolExecutor(max_workers=workers) as ex:
        for j in jobs:
            ex.submit(evaluate, *j, results, out_path)
    sh(["git", "-C", REPO, "worktree", "prune"])
    from collections import Counter
    print(Counter(r["status"] if not r["status"].startswith("error") else "error" for r in results))


if __name__ == "__main__":
    main()
