#!/bin/bash
# Runs every check's tier ($1, default quick) at the given seeds ($2.., default 1) and reports non-zero exits.
cd "$(dirname "$0")"
tier=${1:-quick}; shift
seeds=${@:-1}
bad=0
for s in $seeds; do
  for p in $(python3 -c "import json;print(' '.join(c['property_id'] for c in json.load(open('MANIFEST.json'))['checks']))"); do
    out=$(VERIF_SEED=$s ./check $p $tier 2>&1); rc=$?
    line=$(echo "$out" | grep -E "^C[0-9]+ (quick|thorough)" | tail -1)
    if [ $rc -ne 0 ]; then bad=$((bad+1)); echo "seed=$s $p rc=$rc"; echo "$out" | tail -8; else echo "seed=$s ok $line"; fi
  done
done
echo "non-zero exits: $bad"
exit $bad
