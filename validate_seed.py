#!/usr/bin/env python3
"""Confirms a seeded change delivered by a sub-agent and files it under /verif/seeded/<name>/.

usage: ./validate_seed.py <seed-out-dir> <seed-worktree> <property> [<name>]

Checks, in a fresh scratch worktree of /repo (removed afterwards): the patch applies; the demonstration passes without the
patch; with the patch the existing suite still passes and the demonstration fails. Then files patch.diff, the
demonstration and meta.json. It does not run the /verif checks (./selftest --seeded does).
"""
import json
import os
import re
import shutil
import subprocess
import sys
import tempfile

GOENV = dict(os.environ, GOFLAGS="-mod=mod", GOPROXY="off", GOSUMDB="off", GOTOOLCHAIN="local")
REPO = "/repo"
VERIF = os.path.dirname(os.path.abspath(__file__))


def sh(cmd, cwd=None, timeout=1800):
    r = subprocess.run(cmd, cwd=cwd, env=GOENV, stdout=subprocess.PIPE, stderr=subprocess.STDOUT, text=True, timeout=timeout)
    return r.returncode, r.stdout


def main():
    out_dir, seed_wt, prop = sys.argv[1:4]
    name = sys.argv[4] if len(sys.argv) > 4 else prop + "-agent"
    patch = os.path.join(out_dir, "patch.diff")
    # where do the demo files go? the untracked files of the agent's worktree
    rc, st = sh(["git", "-C", seed_wt, "status", "--porcelain", "--untracked-files=all"])
    untracked = [l[3:].strip() for l in st.splitlines() if l.startswith("??")]
    demo_files = {}
    for root, _, files in os.walk(os.path.join(out_dir, "demo")):
        for f in files:
            src = os.path.join(root, f)
            cands = [u for u in untracked if os.path.basename(u) == f]
            if cands:
                demo_files[src] = cands[0]
    if not demo_files:
        print("RESULT invalid: cannot locate where the demo files belong", untracked)
        sys.exit(1)
    tests = []
    pkgs = set()
    race = False
    for src, rel in demo_files.items():
        txt = open(src).read()
        tests += re.findall(r"^func (Test\w+)\(", txt, re.M)
        pkgs.add("./" + os.path.dirname(rel))
    notes = open(os.path.join(out_dir, "notes.md")).read() if os.path.exists(os.path.join(out_dir, "notes.md")) else ""
    if re.search(r"go test[^\n]*-race", notes):
        race = True
    tmp = tempfile.mkdtemp(prefix="verif-seedcheck-")
    wt = os.path.join(tmp, "repo")
    rc, o = sh(["git", "-C", REPO, "worktree", "add", "-q", "--detach", wt, "HEAD"])
    result = {"ok": False}
    try:
        def place_demo():
            for src, rel in demo_files.items():
                os.makedirs(os.path.dirname(os.path.join(wt, rel)), exist_ok=True)
                shutil.copy(src, os.path.join(wt, rel))

        def remove_demo():
            for rel in demo_files.values():
                p = os.path.join(wt, rel)
                if os.path.exists(p):
                    os.remove(p)

        def run_demo():
            cmd = ["go", "test", "-vet=off", "-count=1", "-run", "^(" + "|".join(tests) + ")$"]
            if race:
                cmd.append("-race")
            return sh(cmd + sorted(pkgs), cwd=wt)

        place_demo()
        rc0, o0 = run_demo()
        if rc0 != 0:
            print("RESULT invalid: the demonstration fails WITHOUT the change:\n" + o0[-1500:])
            return
        remove_demo()
        rc, o = sh(["git", "-C", wt, "apply", os.path.abspath(patch)])
        if rc != 0:
            print("RESULT invalid: patch does not apply to /repo HEAD:\n" + o)
            return
        rc, o = sh(["go", "build", "./..."], cwd=wt)
        if rc != 0:
            print("RESULT invalid: does not build:\n" + o[-1500:])
            return
        rc, o = sh(["go", "test", "-vet=off", "-count=1", "./..."], cwd=wt)
        if rc != 0:
            print("RESULT invalid: the existing suite fails with the change:\n" + o[-1500:])
            return
        place_demo()
        rc1, o1 = run_demo()
        if rc1 == 0:
            print("RESULT invalid: the demonstration PASSES with the change")
            return
        result["ok"] = True
        dst = os.path.join(VERIF, "seeded", name)
        os.makedirs(os.path.join(dst, "demo"), exist_ok=True)
        shutil.copy(patch, os.path.join(dst, "patch.diff"))
        for src, rel in demo_files.items():
            shutil.copy(src, os.path.join(dst, "demo", os.path.basename(src)))
        if notes:
            open(os.path.join(dst, "agent-notes.md"), "w").write(notes)
        m = re.search(r"(?is)(what (?:it takes|is needed)[^\n]*\n.*?)(?:\n\*\*|\n##|\Z)", notes)
        head = subprocess.run(["git", "-C", REPO, "rev-parse", "--short", "HEAD"], capture_output=True, text=True).stdout.strip()
        meta = {
            "property": prop,
            "expected_checks": [prop],
            "source": "independent sub-agent given only the property text and a scratch worktree",
            "needs_to_manifest": (m.group(1).strip()[:1500] if m else "see agent-notes.md"),
            "demo_placement": {os.path.basename(s): r for s, r in demo_files.items()},
            "demo_cmd": "go test -vet=off -count=1 %s-run '^(%s)$' %s" % ("-race " if race else "", "|".join(tests), " ".join(sorted(pkgs))),
            "confirmed": {
                "repo_head": head,
                "patch_applies": True,
                "suite_passes_with_change": True,
                "demo_passes_without_change": True,
                "demo_fails_with_change": True,
                "demo_failure_tail": o1[-800:],
            },
        }
        json.dump(meta, open(os.path.join(dst, "meta.json"), "w"), indent=1)
        print("RESULT valid: filed under", dst)
    finally:
        sh(["git", "-C", REPO, "worktree", "remove", "--force", wt])
        shutil.rmtree(tmp, ignore_errors=True)


if __name__ == "__main__":
    main()
