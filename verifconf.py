"""Per-property configuration of the checks: jobs per tier, evidence wording, manifest texts."""

RAPID = "property-based testing (pgregory.net/rapid v1.3.0)"

PROPS = {}


def prop(pid, **kw):
    PROPS[pid] = kw


prop(
    "C09",
    title="Union and in-place add obey set-union and precedence laws",
    level="exploration",
    technique="property-based testing against a set-theoretic reference model (rapid)",
    design_ref="DESIGN.md §5 C09",
    rule=("rapid draws triples (A,B,C) of node lists over a five-id pool (well-formed or with dangling edge endpoints/roots, "
          "several edges per source/type, repeated targets, spare slice capacity), every Node attribute populated or not by "
          "reflection over the schema. Non-trivial = A and B share a node whose attributes differ and each has an edge "
          "triple the other lacks; distinct = distinct SHA-256 of the operands' deterministic wire bytes."),
    assumptions=["node identifiers inside one operand are pairwise distinct", "node kind (package/file) is treated as identity, not as a mergeable attribute"],
    level_text=("Random search with shrinking: union/add results are compared, on the node/root/edge-triple sets, with a "
                "set-theoretic reference model and the algebraic laws; attribute precedence is compared field by field "
                "(by reflection) with the stated rule. No absence claim beyond the explored cases."),
    level_note="trusts rapid's generators/shrinker, protobuf reflection and the harness's reference model (harness/props/c09_test.go)",
    jobs=[
        {"test": "TestC09", "checks": 4000, "timeout": 300, "thorough": {"checks": 60000, "shards": 16, "timeout": 1500}},
    ],
    floor={"quick": 200, "thorough": 5000},
)
