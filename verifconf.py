"""Per-property configuration of the checks: jobs per tier, evidence wording, manifest texts."""

RAPID = "property-based testing (pgregory.net/rapid v1.3.0)"

PROPS = {}


def prop(pid, **kw):
    PROPS[pid] = kw


prop(
    "C09",
    title="Union and in-place add obey set-union and precedence laws",
    level="exploration",
    technique="property-based testing against a set-theoretic reference model (rapid)",
    design_ref="DESIGN.md §5 C09",
    rule=("rapid draws triples (A,B,C) of node lists over a five-id pool (well-formed or with dangling edge endpoints/roots, "
          "several edges per source/type, repeated targets, spare slice capacity), every Node attribute populated or not by "
          "reflection over the schema. Non-trivial = A and B share a node whose attributes differ and each has an edge "
          "triple the other lacks; distinct = distinct SHA-256 of the operands' deterministic wire bytes."),
    assumptions=["node identifiers inside one operand are pairwise distinct", "node kind (package/file) is treated as identity, not as a mergeable attribute"],
    level_text=("Random search with shrinking: union/add results are compared, on the node/root/edge-triple sets, with a "
                "set-theoretic reference model and the algebraic laws; attribute precedence is compared field by field "
                "(by reflection) with the stated rule. No absence claim beyond the explored cases."),
    level_note="trusts rapid's generators/shrinker, protobuf reflection and the harness's reference model (harness/props/c09_test.go)",
    jobs=[
        {"test": "TestC09", "checks": 4000, "timeout": 300, "thorough": {"checks": 60000, "shards": 16, "timeout": 1500}},
        {"test": "TestC09Exhaustive", "rapid": False, "exhaustive": True, "replay_test": "TestC09Replay", "timeout": 300},
    ],
    floor={"quick": 200, "thorough": 5000},
)

prop(
    "C10",
    title="Intersection obeys set-intersection laws",
    level="exploration",
    technique="property-based testing against set-theoretic bounds and algebraic laws (rapid)",
    design_ref="DESIGN.md §5 C10",
    rule=("rapid draws pairs (A,B) of node lists over a five-id pool (disjoint, nested, identical, cyclic, ill-formed with dangling "
          "references), attributes by reflection. Non-trivial = 0 < |shared nodes| < min(|A|,|B|) and an edge crosses the boundary of "
          "the shared set; distinct = distinct digest of both operands' wire bytes."),
    assumptions=["node identifiers inside one operand are pairwise distinct"],
    level_text=("Random search with shrinking: node set must equal the set intersection, roots and edge triples must lie between the "
                "stated lower and upper bounds, the laws (idempotence, commutativity on sets, absorption, empty annihilator) and the "
                "second-operand-wins attribute rule are checked field by field by reflection."),
    level_note="trusts rapid, protobuf reflection and the harness's set model (harness/props/c10_test.go)",
    jobs=[
        {"test": "TestC10", "checks": 4000, "timeout": 300, "thorough": {"checks": 60000, "shards": 16, "timeout": 1500}},
        {"test": "TestC10Exhaustive", "rapid": False, "exhaustive": True, "replay_test": "TestC09Replay", "timeout": 300},
    ],
    floor={"quick": 100, "thorough": 3000},
)

prop(
    "C08",
    title="Graph-editing operations preserve well-formedness",
    level="exploration",
    technique="stateful (model-based) property testing with rapid state machines + bounded-exhaustive enumeration",
    design_ref="DESIGN.md §5 C08",
    rule=("rapid state machine over a pool of <=4 well-formed node lists (ids from a five-letter pool, contains/dependsOn edges): union, "
          "intersect, add, removeNodes (ids incl. strangers), relateNodeAtID / relateNodeListAtID (anchor present or absent), nodeGraph, "
          "nodeSiblings, nodeDescendants, getNodesByPurlType, copy; invariant after every step on every pool member. Plus enumeration "
          "of every normalised list up to the stated bound through every unary operation with every argument and every ordered pair "
          "through the binary ones. Non-trivial = history with >=3 mutating steps that removes a root or an edge endpoint (random part), "
          "enumerated list with an edge and a root (enumeration); distinct = digest of the whole history / of the enumeration code."),
    assumptions=["half of the histories pass arguments of in-place operations as clones, the other half pass the pool members themselves (a change that lets two lists share edge objects shows as a broken invariant of the other list)"],
    level_text=("Sequences of editing operations are generated, shrunk as a whole, and the well-formedness (and, where promised, "
                "normalisation) invariant plus the exact RemoveNodes postcondition are checked after every step against a set model; the "
                "enumeration covers all small lists completely (exhaustive within the stated bound)."),
    level_note="trusts rapid's state-machine driver and the harness's invariant/model code (harness/props/c08_test.go)",
    jobs=[
        {"test": "TestC08", "checks": 1500, "timeout": 300, "thorough": {"checks": 15000, "shards": 12, "timeout": 1500}},
        {"test": "TestC08Exhaustive", "rapid": False, "exhaustive": True, "replay_test": "TestC08Replay", "timeout": 300,
         "thorough": {"shards": 4, "timeout": 1700}},
    ],
    floor={"quick": 100, "thorough": 3000},
)

prop(
    "C15",
    title="Sub-graph extraction computes bounded reachability and terminates",
    level="exploration",
    technique="property-based testing against a BFS reference model (rapid) + bounded-exhaustive graph enumeration, watchdog for termination",
    design_ref="DESIGN.md §5 C15",
    rule=("rapid draws directed multigraphs over five ids (cycles, self loops, several edges per pair, dangling targets, arbitrary root sets, "
          "three edge types), every start id incl. absent/empty, depth 1..6, plus a permutation of nodes/edges/roots. Enumeration: every "
          "graph up to the bound x every root subset x every start x depths 1..5. Non-trivial = the graph has a cycle or a second root is "
          "reachable from a present start; distinct = digest of graph wire bytes, start and depth (or enumeration code)."),
    assumptions=["node identifiers are pairwise distinct"],
    level_text=("NodeGraph, NodeSiblings and NodeDescendants are compared with an independent breadth-first reference (root boundaries, "
                "levels) on node sets, followed edges, edge restriction and the root; monotonicity in depth and order independence are "
                "metamorphic checks; every call runs under a 5 s watchdog with the case journalled beforehand."),
    level_note="trusts rapid and the harness's reference traversal (harness/props/c15_test.go)",
    jobs=[
        {"test": "TestC15", "checks": 4000, "timeout": 300, "replay_test": "TestC15Replay", "thorough": {"checks": 40000, "shards": 12, "timeout": 1500}},
        {"test": "TestC15Exhaustive", "rapid": False, "exhaustive": True, "replay_test": "TestC15Replay", "timeout": 300,
         "thorough": {"shards": 4, "timeout": 1700}},
    ],
    floor={"quick": 500, "thorough": 5000},
)

prop(
    "C16",
    title="Lookups and node matching return exactly the documented matches",
    level="exploration",
    technique="property-based testing against reference implementations of each lookup and of the documented matching rule (rapid)",
    design_ref="DESIGN.md §5 C16",
    rule=("rapid draws lists of 0-6 nodes (unique ids) with hashes over 3 algorithms x 2 values (shared, conflicting, missing, nil vs empty "
          "map), purls (none, a, b, empty, alternative spelling), FILE/PACKAGE kind, names and identifiers from tiny pools, and a probe node; "
          "every call is repeated 5x on the list and on 4 random permutations. One stream in five also uses empty hash values, where only "
          "order/iteration independence and membership are asserted (AddHash forbids empty values; the rule is undocumented there). "
          "Non-trivial = >=2 hash candidates or a purl tie; distinct = digest of the list and probe."),
    assumptions=["node identifiers are pairwise distinct", "hash values are non-empty in the stream compared with the documented rule"],
    level_text=("Every lookup is compared with a straightforward reference; GetMatchingNode with the documented rule, and its verdict must be "
                "identical across permutations of the list and repetitions (map iteration order)."),
    level_note="trusts rapid and the harness's reference matcher (harness/props/c16_test.go)",
    jobs=[{"test": "TestC16", "checks": 6000, "timeout": 300, "thorough": {"checks": 80000, "shards": 16, "timeout": 1500}},
          {"test": "TestC16Findings", "rapid": False, "timeout": 60}],
    floor={"quick": 300, "thorough": 5000},
)

prop(
    "C13",
    title="Equality and checksums form a sound, order-insensitive equivalence",
    level="exploration",
    technique="property-based testing: metamorphic relations (permutation, single-leaf mutation by reflection) and an independent reference equality (rapid)",
    design_ref="DESIGN.md §5 C13",
    rule=("Nodes populated by reflection over the schema (every field, nested persons with contacts, external references with hashes); for each: "
          "a permuted clone (every order-irrelevant collection shuffled), an unrelated node, and a clone with exactly one leaf changed (every leaf "
          "of the schema reachable, elements added, dates moved by >=1 s). Small-domain triples make chance equalities frequent for "
          "symmetry/transitivity. Node lists likewise (nodes, edges, targets, roots permuted; one leaf anywhere changed). Text without the "
          "flattened encoding's metacharacters in the alarm-capable stream (KF-02); a second stream with them feeds only the finding counter. "
          "Non-trivial = pair differing in exactly one leaf, or a non-identity permutation; distinct = digest of value, leaf path and mutated value."),
    assumptions=["node identifiers inside a list are pairwise distinct", "the order of a person's contacts is not claimed to be irrelevant"],
    level_text=("Reflexivity, symmetry, transitivity, Equal<=>Checksum, permutation invariance, discrimination of every single-leaf change and "
                "soundness w.r.t. a reflection-based canonical form (Equal => same content, dates to the second) on generated values."),
    level_note="trusts rapid, protobuf reflection and the harness's canonical form (harness/hx/refnode.go)",
    jobs=[
        {"test": "TestC13Node", "checks": 3000, "timeout": 300, "thorough": {"checks": 40000, "shards": 8, "timeout": 1500}},
        {"test": "TestC13Triples", "checks": 3000, "timeout": 300, "thorough": {"checks": 100000, "shards": 2, "timeout": 1500}},
        {"test": "TestC13Lists", "checks": 1500, "timeout": 300, "thorough": {"checks": 20000, "shards": 6, "timeout": 1500}},
        {"test": "TestC13Findings", "rapid": False, "timeout": 60},
    ],
    floor={"quick": 1000, "thorough": 10000},
)

prop(
    "C14",
    title="Node diff is sound, complete and reconstructive",
    level="exploration",
    technique="property-based testing against a reflection-driven reference diff and a reconstruction round trip (rapid)",
    design_ref="DESIGN.md §5 C14",
    rule=("Ordered pairs (n, n') of schema-populated nodes where n' is a clone, a clone with 1/2/5 leaves changed, an independent node, a "
          "permutation, an empty-versus-absent variant of every collection (incl. nested contacts and reference hashes) or a variant with "
          "duplicated elements; text without the KF-02 metacharacters. Non-trivial = at least one attribute differs and some differing "
          "attribute is a collection; distinct = digest of both nodes."),
    assumptions=["list elements are identified by content; list- and map-valued attributes are compared as sets / maps; dates to the second"],
    level_text=("Diff=nil iff the reference diff is empty, DiffCount equals the number of differing attributes, nothing is reported for "
                "attributes that do not differ, and applying Added/Removed to the first node rebuilds the second (field-wise, by reflection)."),
    level_note="trusts rapid, protobuf reflection and the harness's reference diff / apply (harness/props/c14_test.go)",
    jobs=[{"test": "TestC14", "checks": 5000, "timeout": 300, "thorough": {"checks": 60000, "shards": 16, "timeout": 1500}}],
    floor={"quick": 500, "thorough": 10000},
)

prop(
    "C11",
    title="Queries and value-returning operations leave their operands unchanged",
    level="exploration",
    technique="property-based testing with before/after snapshots over a reflection-enumerated operation table (rapid) + generated concurrent programs under the Go race detector",
    design_ref="DESIGN.md §5 C11",
    rule=("(a) rapid draws a shared document (graph over five ids, every schema field populated or not by reflection, unsorted roots and "
          "edge targets, persons with contacts, spare slice capacity); EVERY exported read-only/value-returning method of Document, NodeList, "
          "Node, Edge, Person, ExternalReference, Metadata, Tool, DocumentType (enumerated by reflection; a method the table does not classify "
          "fails the self test) is called on every reachable receiver with generated arguments (fresh, or parts of the shared document), plus "
          "serialization in all seven registered formats; order-sensitive deterministic wire-byte snapshots of the document and of every "
          "argument before = after. (b) programs of 2-8 goroutines x 3-10 such calls on one shared document in a -race binary. "
          "Non-trivial = document with unsorted roots, unsorted edge targets or a person with contacts (a) / every distinct program (b)."),
    assumptions=["the race detector reports an unsynchronised conflicting access pair whenever both accesses execute (happens-before based), interleavings are sampled, not enumerated"],
    level_text=("(a) snapshot equality of every operand after every read-only public operation on generated operands; (b) no race report and "
                "no runtime abort for generated concurrent programs of such operations on one shared document."),
    level_note="trusts rapid, protobuf deterministic marshalling as snapshot, Go's race detector; schedules are sampled",
    jobs=[
        {"test": "TestC11a", "checks": 400, "timeout": 400, "thorough": {"checks": 5000, "shards": 10, "timeout": 1700}},
        {"test": "TestC11b", "checks": 250, "race": True, "timeout": 400, "thorough": {"checks": 2500, "shards": 6, "timeout": 1700}},
    ],
    floor={"quick": 200, "thorough": 3000},
)

prop(
    "C12",
    title="Copies and combined results are independent values",
    level="exploration",
    technique="property-based testing: reflection-populated values, Go-level alias walk of all reachable memory, behavioural mutation of every leaf, call histories (rapid)",
    design_ref="DESIGN.md §5 C12",
    rule=("Copy: every message type of the schema that has a Copy method (found by reflection), all fields populated to depth 3, slices "
          "re-allocated with spare capacity half of the time; Histories: 2-4 Union/Intersect/Copy calls over three operands (operands reused), "
          "interleaved with in-place edits of results (leaf mutation, Add, RemoveNodes, Update/AddHash, appends). Non-trivial = source with more "
          "than 12 leaves (Copy) / history in which an operand is used twice; distinct = digest of value / history and operands."),
    assumptions=["independence is judged on protobuf field content (order-sensitive wire snapshot) and on Go memory reachable through exported fields"],
    level_text=("copy equals source (reference key, and Equal where defined); the memory reachable from copy and source (pointer targets, map "
                "headers, slice backing arrays incl. spare capacity) is disjoint; mutating every leaf of either side leaves the other side's "
                "snapshot unchanged; the same between union/intersection results and both operands, and earlier results are unchanged by later calls."),
    level_note="trusts rapid, Go reflection (alias walker in harness/hx/reflect.go) and protobuf marshalling as snapshot",
    jobs=[
        {"test": "TestC12Copy", "checks": 2500, "timeout": 300, "thorough": {"checks": 30000, "shards": 8, "timeout": 1500}},
        {"test": "TestC12History", "checks": 1200, "timeout": 300, "thorough": {"checks": 15000, "shards": 8, "timeout": 1500}},
    ],
    floor={"quick": 300, "thorough": 5000},
)

prop(
    "C01",
    title="SPDX 2.3 write-then-read round trip preserves the SBOM graph",
    level="exploration",
    technique="property-based round-trip testing through the public writer/reader with a spec-derived expressibility projection (rapid) + exhaustive enum sweep",
    design_ref="DESIGN.md §5 C01",
    rule=("rapid draws documents with 0-8 nodes (distinct valid SPDX ids, PACKAGE or FILE), an independent random subset of all Node attributes "
          "(unicode text JSON carries without escapes; 0-3 purposes over all 30 enum values; hashes over all 18 algorithm numbers; the four identifier "
          "kinds; 0-3 external references over all 62 types; 0-2 suppliers/originators; three dates over years 1-9999 with nanoseconds), 0-8 edges over "
          "relationship types 1..44 with 0-3 targets (self loops, cycles, repeated source/type, repeated targets, isolated nodes), 0-3 roots (repeats), "
          "indent 0-8. Sweep: each of the 44 relationship types x 4 indents, 16 shared algorithms x {package,file}, 12 native purposes. "
          "Non-trivial = >=2 nodes, >=1 edge target and one of {date set, originator set, >=2 purposes, file node}; distinct = digest of the document's wire bytes and indent."),
    assumptions=["text outside 'JSON carries without escapes' and ids outside [A-Za-z0-9.-]+ are outside the stated domain (tools-golang reads ids/actors from raw JSON text)",
                 "values SPDX cannot carry are left out of the comparison on both sides: references without URL, checksums / identifiers / attribution texts without content, file types outside the closed SPDX enumeration", "declared licence list is not carried by the SPDX driver and not asserted"],
    level_text=("write -> read -> compare on node (id, kind) multiset, typed-edge triple set, root set and the per-node projection onto what SPDX 2.3 can "
                "carry (tables written from the SPDX 2.3 specification, not from protobom's), then a second pass that must change nothing."),
    level_note="trusts rapid and the harness's projection tables (harness/props/c01_test.go); goes through writer.WriteStreamWithOptions and reader.ParseStream with auto-detection",
    jobs=[
        {"test": "TestC01", "checks": 3000, "timeout": 300, "thorough": {"checks": 40000, "shards": 16, "timeout": 1700}},
        {"test": "TestC01Sweep", "rapid": False, "timeout": 120},
        # coverage-guided search inside the generator's domain (fuzzer bytes drive the rapid generators), thorough tier only
        {"test": "FuzzC01RoundTrip", "fuzz": "FuzzC01RoundTrip", "rapid": False, "fuzztime": "120s", "timeout": 600, "mem_gb": 12, "quick": {"skip": True}},
    ],
    floor={"quick": 500, "thorough": 20000},
)

prop(
    "C02",
    title="CycloneDX write-then-read round trip preserves components and containment",
    level="exploration",
    technique="property-based round-trip testing with schema-derived projection tables (rapid) + exhaustive enumeration of small trees x edge-list permutations",
    design_ref="DESIGN.md §5 C02",
    rule=("rapid draws single-rooted containment trees with 1-10 nodes (depth up to 10; chains favoured half of the time), the edge list stored in "
          "uniformly random / parent-first / child-first order, merged or split per source, nodes permuted; per node: name, version, description, "
          "copyright (arbitrary valid UTF-8 incl. escapes and control characters), kind, 0-2 purposes over all values, hashes over all algorithm numbers, "
          "purl, CPE 2.2/2.3/both, 0-1 licence, 0-3 external references over all 62 types with comment and hashes; serial number, numeric version, 0-3 "
          "lifecycle document types; format 1.4 or 1.5. Exhaustive: all recursive trees with <=5 nodes x all permutations of the edge list x "
          "{split,merged} x {node order, reversed} x {1.4,1.5}. Non-trivial = depth >=3 with the edge list not in child-first order, or a file node, "
          "or a reference with hashes; distinct = digest of document wire bytes and format."),
    assumptions=["identifiers do not start with the reserved 'protobom-' prefix", "package nodes whose first purpose maps to component type 'file' are excluded (they are files in CycloneDX)",
                 "at most one licence per node (KF-01) and Metadata.Name empty or equal to the root's name (KF-03)",
                 "external references: URL, comment and hashes of every reference are compared as a set, the type only when the target version can express it; hashes without content are left out; with both CPE kinds either may survive; the serial number is compared when the document has one"],
    level_text=("write -> read -> compare node set, containment-edge set, root, per-node CycloneDX-expressible attributes (tables from the CycloneDX "
                "1.4/1.5 schemas), serial number, version, lifecycles (1.5); second pass must change nothing. Small trees are covered exhaustively."),
    level_note="trusts rapid, the harness's projection tables (harness/props/c02_test.go) and cyclonedx-go's documented down-conversion of 1.5-only reference types at 1.4 (either outcome accepted)",
    jobs=[
        {"test": "TestC02", "checks": 2500, "timeout": 300, "thorough": {"checks": 25000, "shards": 12, "timeout": 1700}},
        {"test": "TestC02Exhaustive", "rapid": False, "exhaustive": True, "replay_test": "TestC02Replay", "timeout": 600, "shards": 4},
        {"test": "TestC02Findings", "rapid": False, "timeout": 60},
        {"test": "FuzzC02RoundTrip", "fuzz": "FuzzC02RoundTrip", "rapid": False, "fuzztime": "120s", "timeout": 600, "mem_gb": 12, "quick": {"skip": True}},
    ],
    floor={"quick": 500, "thorough": 10000},
)

prop(
    "C03",
    title="Translation never silently drops or invents nodes, edges or references",
    level="exploration",
    technique="property-based differential testing: writer output decoded with encoding/json only and checked against the document (rapid) + mutated real SBOMs",
    design_ref="DESIGN.md §5 C03",
    rule=("(a) rapid draws well-formed documents (<=6 nodes with valid SPDX ids, DAG/cyclic/non-forest containment, dependsOn and other typed edges between "
          "arbitrary nodes, 0-3 purposes, 0..n roots) and writes them in every format for which a serializer is registered at run time; (b) every real SBOM "
          "under /repo's testdata and examples (size-bounded per tier) verbatim and after 1-5 schema-preserving JSON mutations (delete optional member, "
          "drop/duplicate/swap array elements) is parsed and written in every format of the other family. Non-trivial = >=3 nodes and (dependsOn between "
          "non-root nodes, or a node with >=2 purposes, or non-forest containment), or a parsed real file; distinct = digest of document / of file and mutation."),
    assumptions=["a refused write (multi-root or rootless CycloneDX, CycloneDX < 1.2 JSON) is an error return, not a silent loss", "Metadata.Name empty or equal to the root's name (KF-03)",
                 "parsed real documents that are not closed graphs are C05's subject and are skipped here (counted)"],
    level_text=("Whenever a write succeeds the bytes are decoded independently of protobom: SPDX - every node exactly once among packages and files, one "
                "relationship with the specification's name per edge target, one DESCRIBES per root, no dangling endpoint; CycloneDX - every node as a bom-ref "
                "(exactly once when containment is a forest), none invented, containment nested under a container, dependsOn in the dependency graph, no "
                "dangling ref. Reading back returns the same id, name, version and shared hashes / purl / CPE per node."),
    level_note="trusts encoding/json, rapid and the harness's relationship-name table (SPDX 2.3 §11) in harness/props/c03_test.go",
    jobs=[
        {"test": "TestC03", "checks": 1500, "timeout": 400, "thorough": {"checks": 15000, "shards": 12, "timeout": 1700}},
        {"test": "TestC03Real", "rapid": False, "timeout": 600, "thorough": {"shards": 4, "timeout": 1700}},
        {"test": "TestC03Findings", "rapid": False, "timeout": 60},
        {"test": "FuzzC03Translate", "fuzz": "FuzzC03Translate", "rapid": False, "fuzztime": "120s", "timeout": 600, "mem_gb": 12, "quick": {"skip": True}},
        # with the beta SPDX 3 serializer linked (dedicated binary)
        {"test": "TestC03", "checks": 400, "timeout": 400, "tags": "verifbeta", "thorough": {"checks": 4000, "shards": 4, "timeout": 1700}},
    ],
    floor={"quick": 300, "thorough": 3000},
)

prop(
    "C04",
    title="Parsers are total on untrusted input",
    level="fault_enumeration",
    technique="systematic schema-fault enumeration over every JSON path + property-based hostile-input generation (rapid) + native go fuzzing in the thorough tier",
    design_ref="DESIGN.md §5 C04",
    rule=("Every single fault (16 operators: null, number, negative, float, string, bool, object, array, empty, absent, duplicate, oversized, deep, nulls, null_run, blank) at every "
          "JSON path of four representative documents (hand-written SPDX 2.3 and CycloneDX 1.5 documents populating every member the parsers read, bom-1.4.json, "
          "bom-1.5.json); double faults sampled (quick) or enumerated on the hand-written documents (thorough); rapid-generated byte strings, JSON token soup, "
          "truncations, BOM prefixes, nesting to 20000 levels, 1 MB strings, tag-value look-alikes; depth-n / width-n scaling families n=8..512; thorough adds "
          "coverage-guided native fuzzing. Each input goes through detection, auto-detected parsing and every registered parser. Non-trivial/distinct = distinct (base, fault) or distinct input bytes."),
    assumptions=["a 60 s watchdog per call on inputs <=1 MB and <=1600 components stands for 'polynomial time' (typical parse: milliseconds; the library's grafting is quadratic)", "inputs with more than 12 entries in one CycloneDX licences array - or, when they are not one strict JSON value, more than 12 members named license / expression anywhere - are excluded (KF-05)", "a native-fuzz crasher counts only if the target fails on the saved input again in a fresh process"],
    level_text=("Fault enumeration: all single schema faults at all paths are executed (exhaustive for the listed documents and operators); each call must return "
                "(document with metadata and node list) xor error, without panic, process death (journal + re-execution) or watchdog hit."),
    level_note="trusts the harness's JSON model/fault operators (harness/hx/jsonmodel.go); third-party decoders are part of the system under test",
    jobs=[
        {"test": "TestC04Faults", "rapid": False, "exhaustive": True, "replay_test": "TestC04Replay", "timeout": 600, "shards": 4, "mem_gb": 6, "thorough": {"shards": 16, "timeout": 3000}},
        {"test": "TestC04Bytes", "checks": 1500, "replay_test": "TestC04Replay", "timeout": 600, "mem_gb": 6, "thorough": {"checks": 10000, "shards": 8, "timeout": 3000}},
        {"test": "TestC04Scaling", "rapid": False, "replay_test": "TestC04Replay", "timeout": 300, "mem_gb": 6},
        {"test": "TestC04Findings", "rapid": False, "timeout": 60},
        # coverage-guided native fuzzing, thorough tier only (all cores; not reproducible from a seed)
        {"test": "FuzzC04Parse", "fuzz": "FuzzC04Parse", "rapid": False, "fuzztime": "240s", "timeout": 900, "mem_gb": 12, "quick": {"skip": True}},
    ],
    floor={"quick": 2000, "thorough": 20000},
)

prop(
    "C05",
    title="Parsed graphs are well-formed, deterministic and layout-independent",
    level="exploration",
    technique="property-based testing with JSON-level generators of schema-valid documents and metamorphic re-encodings (rapid)",
    design_ref="DESIGN.md §5 C05",
    rule=("rapid builds schema-valid CycloneDX 1.3-1.5 JSON (metadata component present/absent, components nested to depth 6, bom-ref present / absent / "
          "duplicated / equal to the parent's, hashes, licences by id/name/expression, external references, dependencies) and SPDX 2.3 JSON (packages, files, "
          "relationships incl. lower-case and unknown types, documentDescribes, hasFiles, external refs, checksums, actors, dates; resolving and non-resolving "
          "references), each parsed from a base layout, twice, with the format stated explicitly, and from 3 re-encodings (white space, member order at every "
          "level, \\uXXXX escapes of some/all characters, \\/). Identifier generator: arbitrary seed lists incl. invalid UTF-8 and flags in any position. "
          "Non-trivial = nesting depth >=2 or a duplicate/missing reference, with a re-encoding that changed member order; distinct = digest of the base text."),
    assumptions=["SPDX documents carry the mandatory documentNamespace (otherwise the document id is random by design)",
                 "SPDXRef-DOCUMENT appears only as the source of DESCRIBES (KF-04); snippets are not generated; bom-refs outside the reserved protobom- namespace"],
    level_text=("closedness (when the input's references resolve), non-empty ids, uniqueness as in the input, safe and unique generated ids, and equality of the "
                "parsed graph (reflection-based canonical form of the node list: nodes with every attribute, edges, roots) across repeated parses, explicit-format parses and JSON re-encodings; document-level metadata is outside the statement."),
    level_note="trusts rapid and the harness's JSON encoder (harness/hx/jsonmodel.go); equality is judged on the canonical form of the parsed node list; a generated document with duplicate ids or unresolved references may be rejected by the parser (counted)",
    jobs=[
        {"test": "TestC05", "checks": 1200, "timeout": 400, "thorough": {"checks": 12000, "shards": 12, "timeout": 1700}},
        {"test": "TestC05Identifier", "checks": 3000, "timeout": 120, "thorough": {"checks": 50000, "shards": 2, "timeout": 600}},
        {"test": "TestC05IdentifierSweep", "rapid": False, "timeout": 300, "shards": 4, "thorough": {"shards": 4, "timeout": 600}},
        {"test": "TestC05Real", "rapid": False, "timeout": 400, "thorough": {"shards": 4, "timeout": 1700}},
        {"test": "TestC05Findings", "rapid": False, "timeout": 60},
        {"test": "FuzzC05Layout", "fuzz": "FuzzC05Layout", "rapid": False, "fuzztime": "120s", "timeout": 600, "mem_gb": 12, "quick": {"skip": True}},
    ],
    floor={"quick": 200, "thorough": 2000},
)

prop(
    "C06",
    title="Format detection is correct, layout-independent and non-consuming",
    level="exploration",
    technique="property-based testing: writer output x formats x indents x JSON re-encodings, plus generated near-miss declarations checked against an independent top-level decode (rapid)",
    design_ref="DESIGN.md §5 C06",
    rule=("Positive: documents from the C01/C02 generators written as SPDX 2.3 and CycloneDX 1.3/1.4/1.5 at indent 0-8, each also in 3 re-encodings "
          "(declaration members moved last, white space, member order, \\uXXXX escapes). Negative/totality: objects over declaration keys (incl. case "
          "variants, duplicates) x values (supported / unsupported versions, near misses, wrong types, null, nested), declarations nested or inside arrays, "
          "trailing data, scalars, byte strings, tag-value look-alikes; every stream wrapped to record its offset and to inject a failing Seek at call 1..3. "
          "Non-trivial = positive case whose encoding differs from the writer's bytes / negative case that is a JSON object; distinct = digest of the input bytes."),
    assumptions=["for tag-value results only the necessary condition is asserted (an SPDXVersion tag and the version token occur in the input); the line sniffer's heuristics are not specified further",
                 "completeness (declared => detected) is asserted for the writer output and its re-encodings only, as stated; for generated declarations only the necessary condition is asserted: a reported JSON format is declared by some reading of the top-level members (member names without regard to case, any occurrence of a repeated member)", "a stream whose Seek fails is outside the statement: only the absence of a panic is asserted"],
    level_text=("detection returns exactly the written format; never panics; returns format xor error; leaves the stream at offset 0 on every path; a reported JSON "
                "format agrees with an independent decode of the top-level declaration and with the format's type/version/encoding accessors; a following "
                "ParseStream sees the whole document."),
    level_note="trusts rapid, the harness's JSON model and its independent declaration decoder (harness/props/c06_test.go)",
    jobs=[
        {"test": "TestC06Positive", "checks": 600, "timeout": 400, "thorough": {"checks": 8000, "shards": 10, "timeout": 1700}},
        {"test": "TestC06Negative", "checks": 4000, "timeout": 300, "thorough": {"checks": 60000, "shards": 6, "timeout": 1700}},
        {"test": "TestC06Accessors", "rapid": False, "timeout": 60},
        {"test": "TestC06Files", "rapid": False, "timeout": 60},
        {"test": "FuzzC06Sniff", "fuzz": "FuzzC06Sniff", "rapid": False, "fuzztime": "120s", "timeout": 600, "mem_gb": 12, "quick": {"skip": True}},
    ],
    floor={"quick": 1000, "thorough": 20000},
)

prop(
    "C07",
    title="Serializers are total and deterministic on arbitrary documents",
    level="exploration",
    technique="property-based testing over reflection-populated Document values with hand-shaped extremes, watchdog + journal for hangs and process death, A-B-A determinism histories (rapid) + exhaustive shape pairs",
    design_ref="DESIGN.md §5 C07",
    rule=("Documents populated by reflection over the schema (out-of-range enum numbers included, ids from a four-letter pool so that references resolve or "
          "dangle) plus 0-3 shape operations from a menu of 29 (nil/empty metadata and node list, freshly unmarshalled empty document, nil entries in every repeated "
          "message field, document types without name/type, RUNTIME and out-of-range types, duplicate and empty ids, no/one/many/dangling roots, dangling edges, "
          "self containment, containment cycles, a chain of 25 diamonds, out-of-range node/edge/purpose/hash enums, non-numeric version); nil or 0-8 indent; every "
          "registered format; sequences A,B,A through one writer and A through a fresh writer. Exhaustive: every single and ordered pair of shape operations on a "
          "reference document. Non-trivial = document with at least one shape operation; distinct = digest of base bytes and operations."),
    assumptions=["outputs are compared as JSON with creation timestamps blanked and every array sorted (a sound over-approximation of 'up to the order of set-valued arrays')",
                 "render indentation is a non-negative configuration value"],
    level_text=("every write returns error xor non-empty valid JSON, without panic, watchdog hit (10 s) or process death (journalled case re-executed alone), leaves "
                "the document unchanged, and equals the output of writing the same document again after another document and through a fresh writer."),
    level_note="trusts rapid, the canonical JSON form in harness/hx/jsonmodel.go; the beta SPDX 3 serializer is covered by a dedicated binary built with -tags verifbeta",
    jobs=[
        {"test": "TestC07", "checks": 1200, "timeout": 400, "replay_test": "TestC07Replay", "thorough": {"checks": 12000, "shards": 12, "timeout": 1700}},
        {"test": "TestC07Shapes", "rapid": False, "exhaustive": True, "replay_test": "TestC07Replay", "timeout": 400},
        # the same checks with the beta SPDX 3 serializer linked (it registers itself in init): dedicated binary
        {"test": "TestC07", "checks": 300, "timeout": 400, "tags": "verifbeta", "replay_test": "TestC07Replay", "thorough": {"checks": 4000, "shards": 4, "timeout": 1700}},
        {"test": "TestC07Shapes", "rapid": False, "exhaustive": True, "tags": "verifbeta", "replay_test": "TestC07Replay", "timeout": 400},
    ],
    floor={"quick": 300, "thorough": 3000},
)

prop(
    "C18",
    title="Reader and writer configuration is isolated per instance",
    level="exploration",
    technique="stateful (model-based) property testing with rapid state machines and fake drivers that record the options reaching them",
    design_ref="DESIGN.md §5 C18",
    rule=("rapid state machine: newWriter(subset of {format, render, serialize, format options, store options, storage backend, nil options}; a quarter with no "
          "option at all), newReader(subset of {unserialize, retrieve, format options, storage backend, sniffer, nil options}), in-place reconfiguration, write, "
          "writeWithOptions, parse, parseWithOptions, store / storeWithOptions and retrieve / retrieveWithOptions through recording backends, on up to 6+6 live "
          "instances; recording sniffers; fake serializer/unserializer registered under a "
          "private format (and, for the case's duration, as the CycloneDX 1.5 parser so that auto-detected parses reach it). After every step every live instance's "
          "Options fields and format-option lookups are compared with a model = documented defaults overlaid with its own constructor options. Non-trivial = history in "
          "which an optioned constructor precedes an option-less one of the same kind; distinct = digest of the history."),
    assumptions=["each case starts by undoing, through a throw-away instance, whatever a shared defaults object may hold, so a case is a pure function of its own history",
                 "when a call's option set carries no render / format options, either the library default or the instance's own may reach the driver",
                 "Store()/Retrieve() without an option set are documented to use 'the default options': the backend may receive the library defaults or the instance's own, never another instance's"],
    level_text=("invariant over histories: configuration of every live instance equals the model after every constructor / call; the format and the options that reach "
                "the driver in a call are those of the call's option set, and the next plain call uses the instance's own again; every store, retrieve and "
                "detection goes through the backend / sniffer the instance's own constructor was given and through no other instance's."),
    level_note="trusts rapid's state-machine driver and the fake drivers in harness/props/c18_test.go",
    jobs=[{"test": "TestC18", "checks": 1500, "timeout": 300, "thorough": {"checks": 30000, "shards": 16, "timeout": 1500}}],
    floor={"quick": 200, "thorough": 5000},
)

prop(
    "C17",
    title="Registries, detection, parsing and writing are safe under concurrency",
    level="exploration",
    technique="generated concurrent programs under the Go race detector, per-call comparison with sequential results, porcupine linearizability check of registry histories (rapid)",
    design_ref="DESIGN.md §5 C17",
    rule=("rapid draws programs of 2-8 goroutines x 3-12 calls from {reader.New, writer.New (with options), Register/Unregister/GetFormat(Un)serializer on 3 private + "
          "2 built-in keys, SniffReader on JSON and tag-value inputs, ParseStream, WriteStream on goroutine-local documents}, started together from a barrier in a -race "
          "binary (halt on first report). Non-trivial = two goroutines touch the same registry key or both sniff tag-value input; distinct = digest of the program."),
    assumptions=["interleavings are sampled by the Go scheduler, not enumerated; the race detector's verdict depends on the happens-before relation of the executed accesses, not on timing",
                 "atomicity violations without a data race are found only if the sampled schedule exhibits them (linearizability is checked on the observed histories)"],
    level_text=("no race report, no runtime abort; every parse / write / detection result equals the sequential result computed beforehand; constructors return instances "
                "configured with their own options; the registry call/return histories are linearizable w.r.t. a map model (porcupine)."),
    level_note="trusts the Go race detector, porcupine v1.3.0 and rapid",
    jobs=[
        {"test": "TestC17", "checks": 350, "race": True, "timeout": 400, "thorough": {"checks": 3000, "shards": 8, "timeout": 1700}},
        {"test": "TestC17SniffStress", "rapid": False, "race": True, "timeout": 300, "thorough": {"shards": 4}},
        {"test": "TestC17RegistryStress", "rapid": False, "race": True, "timeout": 300, "thorough": {"shards": 4}},
        # first calls of a fresh process made concurrently (lazy initialisation): 24 / 200 child processes of this test binary
        {"test": "TestC17ColdStart", "rapid": False, "race": True, "timeout": 600, "thorough": {"shards": 2}},
    ],
    floor={"quick": 100, "thorough": 3000},
)

prop(
    "C19",
    title="Filesystem store round-trips, isolates keys, stays confined, reports errors",
    level="exploration",
    technique="stateful (model-based) property testing with rapid state machines; every store/retrieve runs in a child process (exit status observed), unprivileged when possible; injected I/O faults",
    design_ref="DESIGN.md §5 C19",
    rule=("rapid state machine over a fresh directory tree: store(id, document populated by reflection, no-clobber on/off), store of documents without id / without "
          "metadata / nil, retrieve(id incl. unknown and empty), faults (delete entry, truncate to zero, overwrite with junk, replace by directory, make unreadable, remove "
          "base directory, base is a regular file, base unwritable); ids: plain, '../x', '/etc/passwd', 'a/b', '..', '.', unicode, NUL, newline, 4 KB, invalid UTF-8. "
          "Model: map id -> stored bytes; after every store all model ids are retrieved in a fresh child and the tree around the base directory is compared. "
          "Non-trivial = history containing an overwrite, a no-clobber conflict or a faulted retrieve; distinct = digest of the history."),
    assumptions=["when the harness runs as root the child runs as uid/gid 65534 over a tree owned by that uid (directory-permission mistakes are then observable); otherwise as the invoking user",
                 "for a corrupted (junk) entry either an error or some non-empty document is accepted; an empty (zero-length) entry must yield an error"],
    level_text=("invariant over histories against a map model: successful store then retrieve gives a proto.Equal document, other ids unaffected, every created path is a "
                "direct child of the configured directory, a missing directory is created and usable, no-clobber refuses and preserves, and every failure is an error return "
                "of a child that exits 0 (never a process exit, panic or silently empty document)."),
    level_note="trusts rapid's state-machine driver, os/exec and the helper harness/cmd/storechild (public writer/reader API only)",
    cmds={"VERIF_STORECHILD": "cmd/storechild"},
    jobs=[{"test": "TestC19", "checks": 150, "steps": 14, "timeout": 400, "thorough": {"checks": 600, "steps": 16, "shards": 16, "timeout": 1700}}],
    floor={"quick": 12, "thorough": 1000},
)

prop(
    "C20",
    title="Storing a document is atomic with respect to crashes",
    level="fault_enumeration",
    technique="crash-point enumeration from outside: the storing child is traced with strace, killed (fault injection) before each file-system call of the store takes effect, torn prefixes of every write are synthesised, and each crash state is read back in a fresh process",
    design_ref="DESIGN.md §5 C20",
    rule=("scenarios {first store, overwrite with a document of another length, overwrite while a neighbour id exists} x generated documents of several sizes. Per scenario: "
          "trace the store's file-system calls on the main thread (strace -ff -y); for the j-th call re-run the child with strace inject=<call>:error=EINTR:signal=KILL:when=<index> "
          "so that it dies before that call takes effect (the injected run's trace confirms the killed call; a miss is retried, then inconclusive); for every write, torn prefixes "
          "(all for <=512 bytes; 64 evenly spaced + first/last bytes + every top-level protobuf field boundary otherwise); retrieve the crashed id and the neighbour from every state in a "
          "fresh child. Non-trivial = crash state whose directory differs from both the old and the new state; evaluations = crash states examined."),
    assumptions=["process death only (page cache survives): power loss / fsync ordering is not modelled", "the store's sequence of file-system calls is that of the traced execution (storing goroutine locked to the main thread in the helper)"],
    level_text=("fault enumeration: every system-call boundary of the traced store and torn prefixes of every write; retrieve must return an error, the complete old document "
                "or the complete new document (proto.Equal), the neighbour entry must be intact, the uncrashed state must return the new document."),
    level_note="trusts strace's fault injection and the helper harness/cmd/storechild; exhaustive for the call boundaries of each traced execution, sampled for torn prefixes of large writes",
    cmds={"VERIF_STORECHILD": "cmd/storechild"},
    jobs=[{"test": "TestC20", "rapid": False, "exhaustive": True, "timeout": 600, "shards": 3, "thorough": {"shards": 16, "timeout": 2400}}],
    floor={"quick": 50, "thorough": 1000},
)


# ---- texts revised after the false-alarm hunt (DESIGN.md §10.7): what each narrowed oracle asserts now ------------------
def _revise(pid, level_text=None, add_assumptions=(), replace_assumption=None):
    c = PROPS[pid]
    if level_text:
        c["level_text"] = level_text
    if replace_assumption:
        old, new = replace_assumption
        c["assumptions"] = [new if a.startswith(old) else a for a in c["assumptions"]]
    c["assumptions"] = list(c["assumptions"]) + list(add_assumptions)


_revise("C06", level_text=(
    "detection on the writer's output and its re-encodings returns exactly the written format; on every input it never panics, returns format xor error and leaves the "
    "stream at offset 0; a reported JSON format is declared by the top-level members (necessary condition, independent decode) and agrees with the format's type / version / "
    "encoding accessors; a following ParseStream / ParseFile sees the whole document."))
_revise("C07", level_text=(
    "every write returns error xor non-empty output, without panic, watchdog hit (10 s) or process death (journalled case re-executed alone), and equals the output of writing the "
    "same document again - the same object through all formats twice, another document in between, and a fresh object through a fresh writer - so that anything a serializer "
    "leaves behind in its input or in the writer shows as history dependence. (That a serializer does not modify its input at all is C11's clause.)"),
    replace_assumption=("outputs are compared as JSON", "outputs are compared as JSON with creation timestamps blanked (members named created / timestamp, and any string that is a timestamp "
                        "of the current hour) and every array sorted (a sound over-approximation of 'up to the order of set-valued arrays'); output that is not JSON is compared line by line "
                        "without its creation-time lines"))
_revise("C08", add_assumptions=["'normalised' is what the statement says: at most one edge per source and type, no repeated targets (an edge without targets breaks neither)",
                                "when relating fails, and what exactly it adds, is not part of the statement: only well-formedness is asserted for the relate operations"])
_revise("C09", add_assumptions=["list-valued attributes are compared as sets; when a present-but-all-zero date is involved either operand's value is accepted ('non-empty' is not defined for it)"])
_revise("C10", add_assumptions=["list-valued attributes are compared as sets; when a present-but-all-zero date is involved either operand's value is accepted ('non-empty' is not defined for it)"])
_revise("C11", add_assumptions=["methods the harness cannot classify or cannot build arguments for (added after it was written) are counted in the evidence, not called"])
_revise("C12", add_assumptions=["'compares equal' is decided by the type's own Equal (content to the second where a type has none); the five kinds the statement names are covered",
                                "what an operation does to the order inside its operands is C11's clause: operands are re-snapshotted after every operation and compared after every edit of a result"])
_revise("C13", add_assumptions=["whether an empty non-nil collection equals an absent one is not stated: generated values never mix the two representations",
                                "a repeated member of a set-valued attribute is no change of content"])
_revise("C14", add_assumptions=["removed list entries may be applied as 'every equal entry' or 'one entry per removed element': either way must rebuild the second node's attributes (as sets)"])
_revise("C15", add_assumptions=["a start identifier that is no node of the list is outside 'all start nodes': only termination is asserted for it",
                                "that an extraction leaves its receiver untouched is C11's clause; here a changed receiver shows as a wrong result of a later extraction"])
_revise("C16", add_assumptions=["with purls in the alternative spelling pkg:/type/... in play the matching rule is asserted only as far as textual and normalised comparison agree",
                                "identifier types are queried by the spellings the library names itself; any error is accepted as the ambiguity report"])
_revise("C17", level_text=(
    "no race report, no runtime abort; every parse / write / detection result equals the sequential result computed beforehand; constructors return instances configured with their own "
    "options; the registry call/return histories on private keys are linearizable w.r.t. a map model (porcupine), the driver returned by a lookup being identified by what it does; the "
    "first calls of a fresh process, made concurrently, report what the same calls report one after the other in another fresh process."))
_revise("C18", add_assumptions=["option groups are compared by value (they carry markers), not by pointer; instances built with nil-valued options are excluded from assertions about their own state",
                                "expectations about a per-call option set come from what the caller put into it, not from re-reading it after a call"])
_revise("C19", level_text=(
    "invariant over histories against a map model: successful store then retrieve gives a proto.Equal document, other ids unaffected, every created path lies inside the configured "
    "directory, a missing directory is created and usable, no-clobber refuses and preserves, and every failure is an error return of a child that exits 0 (never a process exit, panic or "
    "silently empty document)."),
    add_assumptions=["a store may refuse an unusual identifier with an error return (counted); one-letter identifiers in a healthy directory must be storable",
                     "the entry file of an identifier is found by diffing the tree around its first store, not by knowing the naming scheme"])
_revise("C20", level_text=(
    "fault enumeration: every system-call boundary of the traced store and torn prefixes of every write (taken from the bytes the traced run really wrote); retrieve must return an error, "
    "the complete old document or the complete new document (proto.Equal), the neighbour entry must be intact, the uncrashed state must return the new document; after a further store in "
    "a crash state (which may be refused) retrieve must again return an error or one of the complete documents."))

# round 4 of the false-alarm hunt / rounds 5-6 of the seeded changes
_revise("C01", add_assumptions=["generated text is everything JSON carries without escapes (RFC 8259: also < > & U+2028 U+2029); generated purl / CPE / gitoid identifiers and checksum values are "
                                "well-formed for their kind and algorithm (a writer may leave out a string that is none of them); documents carry a non-blank name"])
_revise("C03", add_assumptions=["checksum values are hexadecimal digests of their algorithm's length; purls and CPE names are well-formed"])
_revise("C10", add_assumptions=["the kind (PACKAGE / FILE) of a surviving node whose operands disagree about it must be one of the two; which one is counted, not asserted (kind is identity, not an "
                                "attribute under the precedence rule)"])
_revise("C14", add_assumptions=["a oneof whose set member changes counts as one differing attribute or as two (both DiffCount values are accepted)"])
_revise("C19", add_assumptions=["an identifier whose entry file was removed behind the store's back need not be storable again; when the session's directory cannot be removed (a store may write-protect "
                                "what it creates) the action only brings the model up to date"])
_revise("C20", add_assumptions=["a storing process that ends after a crash state is read as a store that did not succeed: the oracle is what the following retrieve returns"])
_revise("C16", add_assumptions=["node identifiers within a generated list are distinct: with a repeated identifier GetMatchingNode counts two matching nodes as one candidate and returns whichever comes first (KF-07)"])
