#!/usr/bin/env python3
"""Writes MANIFEST.json from verifconf.py (keeps the manifest valid and in step with the driver)."""
import json
import os
import sys

VERIF = os.path.dirname(os.path.abspath(__file__))
sys.path.insert(0, VERIF)
import verifconf  # noqa: E402

all_ids = [json.loads(l)["id"] for l in open(os.path.join(VERIF, "properties.jsonl")) if l.strip()]
checks = []
for pid in all_ids:
    c = verifconf.PROPS.get(pid)
    if not c or c.get("unclaimed"):
        continue
    checks.append({
        "property_id": pid,
        "quick_cmd": "./check %s quick" % pid,
        "thorough_cmd": "./check %s thorough" % pid,
        "evidence_file": "/verif/evidence/%s.json" % pid,
        "replay_cmd_template": "./check %s --replay {path}" % pid,
        "engine": "harness",
        "level_claimed": {"category": c["level"], "text": c["level_text"], "design_ref": c.get("design_ref", "DESIGN.md §5")},
        "level_note": c["level_note"],
        "technique": c["technique"],
    })
na = []
for pid in all_ids:
    c = verifconf.PROPS.get(pid)
    if not c or c.get("unclaimed"):
        reason = getattr(verifconf, "NOT_APPLICABLE", {}).get(pid, "not claimed yet: the check for this property is still under construction")
        na.append({"property_id": pid, "reason": reason})
manifest = {
    "version": 1,
    "setup_cmd": "./setup.sh",
    "hooks": {
        "guard": "verif",
        "enable": "no hooks: the checks build the harness module (replace => /repo) against /repo's working tree as it is; the build tag `verif` is reserved and unused",
        "baseline_off_cmd": "cd /repo && go test -mod=mod -vet=off -count=1 ./...",
        "source_commits": [],
        "add_only": True,
    },
    "engines": [{
        "name": "harness",
        "path": "/verif/harness",
        "serves_properties": [c["property_id"] for c in checks],
        "kind_free_text": "Go test binaries (pgregory.net/rapid v1.3.0 generators, state machines and shrinking; bounded-exhaustive enumerators; "
                          "native go fuzzing and the race detector in the thorough tier) driven by the python driver ./check",
    }],
    "checks": checks,
    "not_applicable": na,
    "notes": "All checks rebuild the harness against /repo's current working tree on every run (go build cache keyed by content). "
             "Known findings are listed in /verif/known_findings.json. See DESIGN.md.",
}
json.dump(manifest, open(os.path.join(VERIF, "MANIFEST.json"), "w"), indent=1)
print("MANIFEST.json: %d checks, %d not claimed" % (len(checks), len(na)))
